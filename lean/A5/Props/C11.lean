import A5.Lemmas.BoundarySkel
/-! # C11 — shape of the reported cell boundary

"For every cell and every edge subdivision n ≥ 1, the reported boundary has exactly vertices·n points
(5 sides, 3 for quintant cells) plus a repeated first point when a closed ring is requested."

Model: `A5.cellToBoundary`, `A5.getPentagon`, `A5.polySplitEdges`, `A5.normalizeLongitudes`
(`A5/Model/CellGeo.lean`, `A5/Model/Geo.lean`).  The coordinates are IEEE doubles computed through
libm, about which nothing numeric is provable; everything below is about the *list skeleton* and holds
for arbitrary float sub-results: the theorems quantify over every id, every `n`, both ring modes.
What is NOT covered here: that the points lie on the cell's edges / that corners are the geographic
corners (this stays with the differential correspondence check and the search), and that the call
succeeds (`.ok`) at all — the theorems are conditional on success. -/
namespace A5.C11
open A5

/-- T1. Whenever `cell_to_boundary` succeeds on a cell of resolution ≥ 0 with `n ≥ 1` segments per edge,
the ring has exactly `corners·n` points (`corners` = 3 at resolution 1, else 5), plus one when closed. -/
theorem ring_length (id : Nat) (closed : Bool) (n : Nat) (hn : 1 ≤ n) (ring : List (Float × Float))
    (c : Cell) (hd : deserialize id = .ok c) (hres : 0 ≤ c.res)
    (h : cellToBoundary id closed (some n) = .ok ring) :
    ring.length = (if c.res = 1 then 3 else 5) * n + (if closed then 1 else 0) := by
  obtain ⟨p, first, rest, hp, hlen, rfl⟩ := cellToBoundary_ok id closed (some n) ring c hd (by omega) h
  have hp' := getPentagon_length c p hp
  unfold corners at hp'
  rewrite [show boundarySegs c.res (some n) = n from rfl, polySplitEdges_length p n hn, hp'] at hlen
  rewrite [List.length_reverse]
  cases closed
  · simp only [Bool.false_eq_true, if_false, Nat.add_zero]; exact hlen
  · simp only [if_true, List.length_append, List.length_cons, List.length_nil, Nat.zero_add]
    rewrite [← hlen]; rfl

/-- T1, default subdivision (`segments = None`): `n = max 1 (2^max(6-res,0)) = 2^(6-res)` (1 from
resolution 6 on). -/
theorem ring_length_default (id : Nat) (closed : Bool) (ring : List (Float × Float))
    (c : Cell) (hd : deserialize id = .ok c) (hres : 0 ≤ c.res)
    (h : cellToBoundary id closed none = .ok ring) :
    ring.length = (if c.res = 1 then 3 else 5) * 2 ^ (6 - c.res).toNat + (if closed then 1 else 0) := by
  obtain ⟨p, first, rest, hp, hlen, rfl⟩ := cellToBoundary_ok id closed none ring c hd (by omega) h
  have hp' := getPentagon_length c p hp
  unfold corners at hp'
  rewrite [polySplitEdges_length p _ (boundarySegs_none_pos c.res), hp', boundarySegs_none] at hlen
  rewrite [List.length_reverse]
  cases closed
  · simp only [Bool.false_eq_true, if_false, Nat.add_zero]; exact hlen
  · simp only [if_true, List.length_append, List.length_cons, List.length_nil, Nat.zero_add]
    rewrite [← hlen]; rfl

/-- T1, degenerate request `n = 0`: treated like `n = 1` (`split_edges` returns the polygon itself). -/
theorem ring_length_zero (id : Nat) (closed : Bool) (ring : List (Float × Float))
    (c : Cell) (hd : deserialize id = .ok c) (hres : 0 ≤ c.res)
    (h : cellToBoundary id closed (some 0) = .ok ring) :
    ring.length = (if c.res = 1 then 3 else 5) + (if closed then 1 else 0) := by
  obtain ⟨p, first, rest, hp, hlen, rfl⟩ := cellToBoundary_ok id closed (some 0) ring c hd (by omega) h
  have hp' := getPentagon_length c p hp
  unfold corners at hp'
  rewrite [show boundarySegs c.res (some 0) = 0 from rfl, polySplitEdges_le_one p 0 (by omega), hp'] at hlen
  rewrite [List.length_reverse]
  cases closed
  · simp only [Bool.false_eq_true, if_false, Nat.add_zero]; exact hlen
  · simp only [if_true, List.length_append, List.length_cons, List.length_nil, Nat.zero_add]
    rewrite [← hlen]; rfl

/-- T2a. A closed ring is non-empty and its first and last elements are the same point. -/
theorem ring_closed (id : Nat) (segs : Option Nat) (ring : List (Float × Float))
    (c : Cell) (hd : deserialize id = .ok c) (hres : 0 ≤ c.res)
    (h : cellToBoundary id true segs = .ok ring) :
    ∃ x, ring.head? = some x ∧ ring.getLast? = some x := by
  obtain ⟨p, first, rest, _, _, rfl⟩ := cellToBoundary_ok id true segs ring c hd (by omega) h
  refine ⟨first, ?_, ?_⟩
  · simp [List.reverse_append]
  · simp only [if_true, List.reverse_append, List.reverse_cons, List.reverse_nil, List.nil_append,
      List.singleton_append]
    show ((first :: rest.reverse) ++ [first]).getLast? = some first
    exact List.getLast?_concat

/-- T2b. The closed ring is exactly the open ring with one extra point in front, which equals the open
ring's last point (Rust pushes the first point and then reverses the whole list).  Holds for every id,
including failures: both calls fail identically. -/
theorem ring_closed_eq_open (id : Nat) (segs : Option Nat) :
    cellToBoundary id true segs = (cellToBoundary id false segs >>= fun r => .ok (closeRing r)) :=
  cellToBoundary_closed_eq id segs

/-- T2c. The world cell and every id without a resolution marker (resolution −1) have the empty
boundary, in both ring modes and for every subdivision. -/
theorem ring_world (id : Nat) (closed : Bool) (segs : Option Nat) (h : getResolution id = -1) :
    cellToBoundary id closed segs = .ok [] :=
  cellToBoundary_world id closed segs h

/-- T2d. Conversely a successful call on a cell of resolution ≥ 0 never returns the empty list. -/
theorem ring_nonempty (id : Nat) (closed : Bool) (segs : Option Nat) (ring : List (Float × Float))
    (c : Cell) (hd : deserialize id = .ok c) (hres : 0 ≤ c.res)
    (h : cellToBoundary id closed segs = .ok ring) : ring ≠ [] := by
  obtain ⟨p, first, rest, _, _, rfl⟩ := cellToBoundary_ok id closed segs ring c hd (by omega) h
  cases closed <;> simp

/-- Intended full statement of T3: the geographic corners in the output do not depend on `n`.  This
needs the float-dependent winding test and the projection, so it is NOT proved here. -/
def corners_independent_of_n_statement : Prop :=
  ∀ (id n m : Nat) (r1 r2 : List (Float × Float)) (c : Cell), 1 ≤ n → 1 ≤ m →
    deserialize id = .ok c → 0 ≤ c.res →
    cellToBoundary id false (some n) = .ok r1 → cellToBoundary id false (some m) = .ok r2 →
    ∀ i, i < (if c.res = 1 then 3 else 5) → r1[i * n]? = r2[i * m]?

/-- T3 (partial, list level).  Inside `split_edges`, corner `i` of the polygon is the point at index
`i·n` of the list built *before* `PentagonShape::from_vertices`; after `from_vertices` (which keeps the
list or reverses it, depending on a float winding test) it sits at index `i·n` or at the mirrored index
`k·n − 1 − i·n`.  Missing for the full statement: which of the two happens (float-dependent), and that
projection/normalisation of that point does not depend on `n` (it does not: they act pointwise, but the
longitude window centre is computed from *all* points, so the unwrapped longitude may differ by 360°). -/
theorem corners_independent_of_n_partial (p : Poly) (n i : Nat) (hn : 2 ≤ n) (hi : i < p.length) :
    (splitPts p n)[i * n]? = p[i]? ∧ polySplitEdges p n = polyNew (splitPts p n) ∧
    ((polySplitEdges p n)[i * n]? = p[i]? ∨ (polySplitEdges p n)[p.length * n - 1 - i * n]? = p[i]?) := by
  have hc := splitPts_corner p n i (by omega) hi
  have he : polySplitEdges p n = polyNew (splitPts p n) := by
    rewrite [polySplitEdges_eq, if_neg (by omega)]; rfl
  refine ⟨hc, he, ?_⟩
  rewrite [he]
  unfold polyNew
  split
  · exact Or.inl hc
  · refine Or.inr ?_
    have hlt : i * n < p.length * n := by
      have : (i + 1) * n ≤ p.length * n := Nat.mul_le_mul_right n hi
      rewrite [Nat.succ_mul] at this
      omega
    have hl := splitPts_length p n (by omega)
    rewrite [List.getElem?_reverse (by rewrite [hl]; omega), hl]
    have e : p.length * n - 1 - (p.length * n - 1 - i * n) = i * n := by omega
    rewrite [e]
    exact hc

/-! ## non-vacuity -/

/-- the default subdivision for resolutions 0, 3, 6, 29 -/
example : boundarySegs 0 none = 64 ∧ boundarySegs 3 none = 8 ∧ boundarySegs 6 none = 1 ∧ boundarySegs 29 none = 1 := by
  decide

/-- hypotheses of T1 are satisfiable: id `0x92d8000000000000` decodes to a resolution-4 cell -/
example : deserialize 0x92d8000000000000 = .ok ⟨7, 3, 0x2d, 4⟩ ∧ (0 : Int) ≤ 4 :=
  ⟨deserialize_enc ⟨7, 3, 0x2d, 4⟩ (by decide), by decide⟩

/-- the world cell: the boundary is empty (no Float evaluation needed) -/
example : cellToBoundary 0 true (some 7) = .ok [] := ring_world 0 true (some 7) getResolution_zero

/-- the list-level corner lemma on a concrete triangle split in 4: 12 points, corners at 0, 4, 8 -/
example (a b c : V2) : (splitPts [a, b, c] 4).length = 12 ∧ (splitPts [a, b, c] 4)[2 * 4]? = some c :=
  ⟨splitPts_length _ 4 (by omega), splitPts_corner [a, b, c] 4 2 (by omega) (by show 2 < 3; omega)⟩

end A5.C11
