import A5.Lemmas.BoundarySkel
import A5.Lemmas.PentagonConvex2
import A5.Lemmas.SplitEdges
import Mathlib.Tactic.Linarith
import Mathlib.Algebra.Order.Field.Basic
import Mathlib.Algebra.Order.Field.Rat
/-! # C11 — shape of the reported cell boundary

"For every cell and every edge subdivision n ≥ 1, the reported boundary has exactly vertices·n points
(5 sides, 3 for quintant cells) plus a repeated first point when a closed ring is requested."

Model: `A5.cellToBoundary`, `A5.getPentagon`, `A5.polySplitEdges`, `A5.normalizeLongitudes`
(`A5/Model/CellGeo.lean`, `A5/Model/Geo.lean`).  The coordinates are IEEE doubles computed through
libm, about which nothing numeric is provable; everything below is about the *list skeleton* and holds
for arbitrary float sub-results: the theorems quantify over every id, every `n`, both ring modes.
What is NOT covered here: that the points lie on the cell's edges / that corners are the geographic
corners (this stays with the differential correspondence check and the search), and that the call
succeeds (`.ok`) at all — the theorems are conditional on success.
T1–T3 are core-only; T4 (longitude window over exact ordered fields) uses Mathlib's `linarith`. -/
namespace A5.C11
open A5

/-- T1. Whenever `cell_to_boundary` succeeds on a cell of resolution ≥ 0 with `n ≥ 1` segments per edge,
the ring has exactly `corners·n` points (`corners` = 3 at resolution 1, else 5), plus one when closed. -/
theorem ring_length (id : Nat) (closed : Bool) (n : Nat) (hn : 1 ≤ n) (ring : List (Float × Float))
    (c : Cell) (hd : deserialize id = .ok c) (hres : 0 ≤ c.res)
    (h : cellToBoundary id closed (some n) = .ok ring) :
    ring.length = (if c.res = 1 then 3 else 5) * n + (if closed then 1 else 0) := by
  obtain ⟨p, first, rest, hp, hlen, rfl⟩ := cellToBoundary_ok id closed (some n) ring c hd (by omega) h
  have hp' := getPentagon_length c p hp
  unfold corners at hp'
  rewrite [show boundarySegs c.res (some n) = n from rfl, polySplitEdges_length p n hn, hp'] at hlen
  rewrite [List.length_reverse]
  cases closed
  · simp only [Bool.false_eq_true, if_false, Nat.add_zero]; exact hlen
  · simp only [if_true, List.length_append, List.length_cons, List.length_nil, Nat.zero_add]
    rewrite [← hlen]; rfl

/-- T1, default subdivision (`segments = None`): `n = max 1 (2^max(6-res,0)) = 2^(6-res)` (1 from
resolution 6 on). -/
theorem ring_length_default (id : Nat) (closed : Bool) (ring : List (Float × Float))
    (c : Cell) (hd : deserialize id = .ok c) (hres : 0 ≤ c.res)
    (h : cellToBoundary id closed none = .ok ring) :
    ring.length = (if c.res = 1 then 3 else 5) * 2 ^ (6 - c.res).toNat + (if closed then 1 else 0) := by
  obtain ⟨p, first, rest, hp, hlen, rfl⟩ := cellToBoundary_ok id closed none ring c hd (by omega) h
  have hp' := getPentagon_length c p hp
  unfold corners at hp'
  rewrite [polySplitEdges_length p _ (boundarySegs_none_pos c.res), hp', boundarySegs_none] at hlen
  rewrite [List.length_reverse]
  cases closed
  · simp only [Bool.false_eq_true, if_false, Nat.add_zero]; exact hlen
  · simp only [if_true, List.length_append, List.length_cons, List.length_nil, Nat.zero_add]
    rewrite [← hlen]; rfl

/-- T1, degenerate request `n = 0`: treated like `n = 1` (`split_edges` returns the polygon itself). -/
theorem ring_length_zero (id : Nat) (closed : Bool) (ring : List (Float × Float))
    (c : Cell) (hd : deserialize id = .ok c) (hres : 0 ≤ c.res)
    (h : cellToBoundary id closed (some 0) = .ok ring) :
    ring.length = (if c.res = 1 then 3 else 5) + (if closed then 1 else 0) := by
  obtain ⟨p, first, rest, hp, hlen, rfl⟩ := cellToBoundary_ok id closed (some 0) ring c hd (by omega) h
  have hp' := getPentagon_length c p hp
  unfold corners at hp'
  rewrite [show boundarySegs c.res (some 0) = 0 from rfl, polySplitEdges_le_one p 0 (by omega), hp'] at hlen
  rewrite [List.length_reverse]
  cases closed
  · simp only [Bool.false_eq_true, if_false, Nat.add_zero]; exact hlen
  · simp only [if_true, List.length_append, List.length_cons, List.length_nil, Nat.zero_add]
    rewrite [← hlen]; rfl

/-- T2a. A closed ring is non-empty and its first and last elements are the same point. -/
theorem ring_closed (id : Nat) (segs : Option Nat) (ring : List (Float × Float))
    (c : Cell) (hd : deserialize id = .ok c) (hres : 0 ≤ c.res)
    (h : cellToBoundary id true segs = .ok ring) :
    ∃ x, ring.head? = some x ∧ ring.getLast? = some x := by
  obtain ⟨p, first, rest, _, _, rfl⟩ := cellToBoundary_ok id true segs ring c hd (by omega) h
  refine ⟨first, ?_, ?_⟩
  · simp [List.reverse_append]
  · simp only [if_true, List.reverse_append, List.reverse_cons, List.reverse_nil, List.nil_append,
      List.singleton_append]
    show ((first :: rest.reverse) ++ [first]).getLast? = some first
    exact List.getLast?_concat

/-- T2b. The closed ring is exactly the open ring with one extra point in front, which equals the open
ring's last point (Rust pushes the first point and then reverses the whole list).  Holds for every id,
including failures: both calls fail identically. -/
theorem ring_closed_eq_open (id : Nat) (segs : Option Nat) :
    cellToBoundary id true segs = (cellToBoundary id false segs >>= fun r => .ok (closeRing r)) :=
  cellToBoundary_closed_eq id segs

/-- T2c. The world cell and every id without a resolution marker (resolution −1) have the empty
boundary, in both ring modes and for every subdivision. -/
theorem ring_world (id : Nat) (closed : Bool) (segs : Option Nat) (h : getResolution id = -1) :
    cellToBoundary id closed segs = .ok [] :=
  cellToBoundary_world id closed segs h

/-- T2d. Conversely a successful call on a cell of resolution ≥ 0 never returns the empty list. -/
theorem ring_nonempty (id : Nat) (closed : Bool) (segs : Option Nat) (ring : List (Float × Float))
    (c : Cell) (hd : deserialize id = .ok c) (hres : 0 ≤ c.res)
    (h : cellToBoundary id closed segs = .ok ring) : ring ≠ [] := by
  obtain ⟨p, first, rest, _, _, rfl⟩ := cellToBoundary_ok id closed segs ring c hd (by omega) h
  cases closed <;> simp

/-- Intended full statement of T3: the geographic corners in the output do not depend on `n`.  This
needs the float-dependent winding test and the projection, so it is NOT proved here. -/
def corners_independent_of_n_statement : Prop :=
  ∀ (id n m : Nat) (r1 r2 : List (Float × Float)) (c : Cell), 1 ≤ n → 1 ≤ m →
    deserialize id = .ok c → 0 ≤ c.res →
    cellToBoundary id false (some n) = .ok r1 → cellToBoundary id false (some m) = .ok r2 →
    ∀ i, i < (if c.res = 1 then 3 else 5) → r1[i * n]? = r2[i * m]?

/-- T3 (partial, list level).  Inside `split_edges`, corner `i` of the polygon is the point at index
`i·n` of the list built *before* `PentagonShape::from_vertices`; after `from_vertices` (which keeps the
list or reverses it, depending on a float winding test) it sits at index `i·n` or at the mirrored index
`k·n − 1 − i·n`.  Missing for the full statement: which of the two happens (float-dependent), and that
projection/normalisation of that point does not depend on `n` (it does not: they act pointwise, but the
longitude window centre is computed from *all* points, so the unwrapped longitude may differ by 360°). -/
theorem corners_independent_of_n_partial (p : Poly) (n i : Nat) (hn : 2 ≤ n) (hi : i < p.length) :
    (splitPts p n)[i * n]? = p[i]? ∧ polySplitEdges p n = polyNew (splitPts p n) ∧
    ((polySplitEdges p n)[i * n]? = p[i]? ∨ (polySplitEdges p n)[p.length * n - 1 - i * n]? = p[i]?) := by
  have hc := splitPts_corner p n i (by omega) hi
  have he : polySplitEdges p n = polyNew (splitPts p n) := by
    rewrite [polySplitEdges_eq, if_neg (by omega)]; rfl
  refine ⟨hc, he, ?_⟩
  rewrite [he]
  unfold polyNew
  split
  · exact Or.inl hc
  · refine Or.inr ?_
    have hlt : i * n < p.length * n := by
      have : (i + 1) * n ≤ p.length * n := Nat.mul_le_mul_right n hi
      rewrite [Nat.succ_mul] at this
      omega
    have hl := splitPts_length p n (by omega)
    rewrite [List.getElem?_reverse (by rewrite [hl]; omega), hl]
    have e : p.length * n - 1 - (p.length * n - 1 - i * n) = i * n := by omega
    rewrite [e]
    exact hc

/-! ## non-vacuity -/

/-- the default subdivision for resolutions 0, 3, 6, 29 -/
example : boundarySegs 0 none = 64 ∧ boundarySegs 3 none = 8 ∧ boundarySegs 6 none = 1 ∧ boundarySegs 29 none = 1 := by
  decide

/-- hypotheses of T1 are satisfiable: id `0x92d8000000000000` decodes to a resolution-4 cell -/
example : deserialize 0x92d8000000000000 = .ok ⟨7, 3, 0x2d, 4⟩ ∧ (0 : Int) ≤ 4 :=
  ⟨deserialize_enc ⟨7, 3, 0x2d, 4⟩ (by decide), by decide⟩

/-- the world cell: the boundary is empty (no Float evaluation needed) -/
example : cellToBoundary 0 true (some 7) = .ok [] := ring_world 0 true (some 7) getResolution_zero

/-- the list-level corner lemma on a concrete triangle split in 4: 12 points, corners at 0, 4, 8 -/
example (a b c : V2) : (splitPts [a, b, c] 4).length = 12 ∧ (splitPts [a, b, c] 4)[2 * 4]? = some c :=
  ⟨splitPts_length _ 4 (by omega), splitPts_corner [a, b, c] 4 2 (by omega) (by show 2 < 3; omega)⟩

/-! ## T4 — the longitude window, over exact ordered fields (uses Mathlib's `linarith`) -/

section field
variable {K : Type} [Field K] [LinearOrder K] [IsStrictOrderedRing K]

theorem unwrapUp_window_aux : ∀ (fuel : Nat) (lon center l : K),
    unwrapUpG (180 : K) 360 fuel lon center = .ok l → lon - center ≤ 180 →
    -180 ≤ l - center ∧ l - center ≤ 180 ∧ ∃ k : Int, l - lon = 360 * (k : K) := by
  intro fuel
  induction fuel with
  | zero => intro lon center l h; cases h
  | succ n ih =>
    intro lon center l h hle
    unfold unwrapUpG at h
    by_cases hc : lon - center < -180
    · rewrite [if_pos hc] at h
      obtain ⟨h1, h2, k, hk⟩ := ih _ _ _ h (by linarith)
      refine ⟨h1, h2, k + 1, ?_⟩
      push_cast
      linarith
    · rewrite [if_neg hc] at h
      cases Outcome.ok.inj h
      exact ⟨by linarith, hle, 0, by simp⟩

/-- T4a. Over any linearly ordered field (exact arithmetic): if the two unwrapping loops of
`normalize_longitudes` terminate with `l`, then `l` lies in the window `center ± 180` and differs from
the input longitude by an integer multiple of 360.  `unwrapLonG` is the generic twin of the Float model
`unwrapLon` (`unwrap_twin_is_model`: equal at `Float` with the literals 180.0/360.0); the theorem is about
the twin over exact fields, NOT about IEEE doubles. -/
theorem unwrap_window : ∀ (fuel : Nat) (lon center l : K),
    unwrapLonG (180 : K) 360 fuel lon center = .ok l →
    -180 ≤ l - center ∧ l - center ≤ 180 ∧ ∃ k : Int, l - lon = 360 * (k : K) := by
  intro fuel
  induction fuel with
  | zero => intro lon center l h; cases h
  | succ n ih =>
    intro lon center l h
    unfold unwrapLonG at h
    by_cases hc : lon - center > 180
    · rewrite [if_pos hc] at h
      obtain ⟨h1, h2, k, hk⟩ := ih _ _ _ h
      refine ⟨h1, h2, k - 1, ?_⟩
      push_cast
      linarith
    · rewrite [if_neg hc] at h
      by_cases hd : lon - center < -180
      · rewrite [if_pos hd] at h
        obtain ⟨h1, h2, k, hk⟩ := unwrapUp_window_aux _ _ _ _ h (by linarith)
        refine ⟨h1, h2, k + 1, ?_⟩
        push_cast
        linarith
      · rewrite [if_neg hd] at h
        cases Outcome.ok.inj h
        exact ⟨by linarith, by linarith, 0, by simp⟩

theorem unwrapUp_fuel_aux : ∀ (n : Nat) (lon center : K), -180 - 360 * (n : K) ≤ lon - center →
    ∃ l, unwrapUpG (180 : K) 360 (n + 1) lon center = .ok l := by
  intro n
  induction n with
  | zero =>
    intro lon center h
    unfold unwrapUpG
    rewrite [if_neg (by simp at h; linarith)]
    exact ⟨_, rfl⟩
  | succ n ih =>
    intro lon center h
    unfold unwrapUpG
    by_cases hc : lon - center < -180
    · rewrite [if_pos hc]
      exact ih _ _ (by push_cast at h; linarith)
    · rewrite [if_neg hc]; exact ⟨_, rfl⟩

/-- T4b. Fuel: if `|lon − center| ≤ 180 + 360·n` then `n + 1` units of fuel suffice (the model uses 64). -/
theorem unwrap_fuel : ∀ (n : Nat) (lon center : K), lon - center ≤ 180 + 360 * (n : K) →
    -180 - 360 * (n : K) ≤ lon - center →
    ∃ l, unwrapLonG (180 : K) 360 (n + 1) lon center = .ok l := by
  intro n
  induction n with
  | zero =>
    intro lon center h1 h2
    unfold unwrapLonG
    simp at h1 h2
    rewrite [if_neg (by linarith), if_neg (by linarith)]
    exact ⟨_, rfl⟩
  | succ n ih =>
    intro lon center h1 h2
    unfold unwrapLonG
    push_cast at h1 h2
    by_cases hc : lon - center > 180
    · rewrite [if_pos hc]
      exact ih _ _ (by linarith) (by linarith)
    · rewrite [if_neg hc]
      by_cases hd : lon - center < -180
      · rewrite [if_pos hd]
        exact unwrapUp_fuel_aux n _ _ (by linarith)
      · rewrite [if_neg hd]; exact ⟨_, rfl⟩
end field

/-- T4c. The Float model's loop is the generic twin instantiated at `Float`. -/
theorem unwrap_twin_is_model (fuel : Nat) (lon center : Float) :
    unwrapLon fuel lon center = unwrapLonG (180.0 : Float) 360.0 fuel lon center :=
  unwrapLon_eq_twin fuel lon center

/-- non-vacuity over ℚ: longitude 550 around centre 0 unwraps (with 3 units of fuel) into the window -/
example : ∃ l : ℚ, unwrapLonG (180 : ℚ) 360 3 550 0 = .ok l ∧ -180 ≤ l - 0 ∧ l - 0 ≤ 180 := by
  obtain ⟨l, hl⟩ := unwrap_fuel (K := ℚ) 2 550 0 (by norm_num) (by norm_num)
  exact ⟨l, hl, (unwrap_window _ _ _ _ hl).1, (unwrap_window _ _ _ _ hl).2.1⟩

/-- world aliases (ids without marker bit, e.g. 1) have the empty boundary too -/
example : cellToBoundary 1 false none = .ok [] := ring_world 1 false none (by decide)

/-! ## the planar ring: counter-clockwise, convex, centre inside (exact arithmetic on the runtime constants) -/

open A5.PG A5.HilbertLocate in
/-- `planar_ring_ccw_convex_centre_inside`.  The planar form of "counter-clockwise orientation, and the cell's reported
centre inside it", for the pentagon of EVERY anchor (any `k`, any integer offset, any `±1` flip pair), after scaling by
any `s > 0` (the `2^-res` of `get_pentagon_vertices`) and any matrix of positive determinant (the quintant rotation
`(c, -s, s, c)`, whatever the rounded `cos`/`sin` are), in exact rational arithmetic on the constants the library
computes at start-up: the trapezoid sum is positive (so `PentagonShape::new` keeps the vertex order), the pentagon is
strictly convex, and `get_center` lies strictly on the inner side of all five edges - with explicit margins
(0.09 resp. 0.096 times `det·s²`).  `getPentagonVertices_tie` ties `placedQ` to the Float model (same expression). -/
theorem planar_ring_ccw_convex_centre_inside (a : Anchor) (hF : IsFlip a.flips) (s : Rat) (hs : 0 < s)
    (m : Rat × Rat × Rat × Rat) (hd : 0 < detG m) :
    0 < areaG 0 (placedQ a s m) ∧ polyNewG 0 (placedQ a s m) = placedQ a s m ∧
    ConvexBy 0 (detG m * (s * s) * (9 / 100)) (placedQ a s m) ∧
    InsideBy 0 (detG m * (s * s) * (96 / 1000)) (placedQ a s m) (centreG 0 5 (placedQ a s m)) := by
  obtain ⟨_, h2, h3, _, h5, h6⟩ := placedQ_facts a hF s hs m hd
  exact ⟨h2, h3, h6, h5⟩

open A5.PG in
/-- the same for the quintant triangle (resolution-1 cells), under any matrix of positive determinant -/
theorem planar_triangle_ccw_centre_inside (m : Rat × Rat × Rat × Rat) (hd : 0 < detG m) :
    0 < areaG 0 (transformG m triQ) ∧ polyNewG 0 (transformG m triQ) = transformG m triQ ∧
    InsideBy 0 (detG m * (18 / 100)) (transformG m triQ) (centreG 0 3 (transformG m triQ)) := by
  obtain ⟨h1, h2, h3, _⟩ := triQ_transform m hd
  exact ⟨h1, h2, h3⟩

/-- non-vacuity: a concrete anchor, scale 1/8, a 3-4-5 rotation -/
example : 0 < PG.areaG 0 (PG.placedQ ⟨1, (3, 0), (1, -1)⟩ (1 / 8) (3 / 5, -(4 / 5), 4 / 5, 3 / 5)) :=
  (planar_ring_ccw_convex_centre_inside ⟨1, (3, 0), (1, -1)⟩ (Or.inr (Or.inl rfl)) (1 / 8) (by decide +kernel)
    (3 / 5, -(4 / 5), 4 / 5, 3 / 5) (by decide +kernel)).1

/-! ## the subdivided planar ring (exact arithmetic on the runtime constants, every n) -/

open A5.PG A5.HilbertLocate in
/-- `planar_split_ring`: for the pentagon of every anchor at every positive scale and every matrix of positive determinant,
and EVERY subdivision `n ≥ 1`: the split ring has `5n` points, the pentagon's area (positive: `PentagonShape::new` keeps the
order), the pentagon's corners at the indices `i·n` - "the corner points are the same points for every n" in the plane -,
the centre strictly inside with margin `∝ 1/n`, and all its points on the pentagon's closed boundary side of every edge. -/
theorem planar_split_ring (a : Anchor) (hF : IsFlip a.flips) (s : Rat) (hs : 0 < s)
    (m : Rat × Rat × Rat × Rat) (hd : 0 < detG m) (n : Nat) (hn : 1 ≤ n) :
    (splitQ (placedQ a s m) n).length = 5 * n ∧
    areaG 0 (splitQ (placedQ a s m) n) = areaG 0 (placedQ a s m) ∧
    0 < areaG 0 (splitQ (placedQ a s m) n) ∧
    polyNewG 0 (splitQ (placedQ a s m) n) = splitQ (placedQ a s m) n ∧
    (∀ i, i < 5 → (splitQ (placedQ a s m) n)[i * n]? = (placedQ a s m)[i]?) ∧
    InsideBy 0 (detG m * (s * s) * (96 / 1000) / (n : Rat)) (splitQ (placedQ a s m) n) (centreG 0 5 (placedQ a s m)) := by
  obtain ⟨h1, h2, _, h4, h5, h6, h7, _⟩ := placedQ_split a hF s hs m hd n hn
  exact ⟨h1, h2, h4, h5, fun i hi => (h6 i hi).1, h7⟩

end A5.C11
