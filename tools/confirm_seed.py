#!/usr/bin/env python3
"""Confirm a seeded change independently and file it under /verif/seeded/<name>/.

usage: confirm_seed.py <dir with patch.diff demo.rs meta.json> <name> [<check results file>]

In a scratch worktree of /repo HEAD (removed afterwards):
  1. clean tree + demo            -> demo passes
  2. patch applied, no demo       -> crate builds, existing suite passes (150)
  3. patch applied + demo         -> demo fails
Only if all three hold is the change copied to /verif/seeded/<name>/ with a meta.json recording what was run."""
import json, os, re, shutil, subprocess, sys


def sh(cmd, cwd=None, timeout=1800):
    p = subprocess.run(cmd, cwd=cwd, shell=True, stdout=subprocess.PIPE, stderr=subprocess.STDOUT, text=True, timeout=timeout,
                       env=dict(os.environ, CARGO_NET_OFFLINE="true"))
    return p.returncode, p.stdout


def counts(out):
    p = f = 0
    for m in re.finditer(r"test result: \w+\. (\d+) passed; (\d+) failed", out):
        p += int(m.group(1)); f += int(m.group(2))
    return p, f


def main():
    src, name = sys.argv[1], sys.argv[2]
    results = open(sys.argv[3]).read() if len(sys.argv) > 3 and os.path.exists(sys.argv[3]) else ""
    wt = f"/tmp/cs-{name}"
    sh(f"git -C /repo worktree remove --force {wt}; rm -rf {wt}; git -C /repo worktree prune")
    rc, out = sh(f"git -C /repo worktree add --detach {wt} HEAD")
    log = []
    ok = True
    try:
        shutil.copy(os.path.join(src, "demo.rs"), os.path.join(wt, "tests", "seed_demo.rs"))
        rc, out = sh("cargo test --offline --test seed_demo 2>&1 | tail -15", cwd=wt)
        p, f = counts(out)
        log.append(f"clean tree + demo: cargo test --offline --test seed_demo -> {p} passed, {f} failed")
        ok &= (p >= 1 and f == 0)
        os.remove(os.path.join(wt, "tests", "seed_demo.rs"))
        rc, out = sh(f"git apply {os.path.abspath(os.path.join(src, 'patch.diff'))}", cwd=wt)
        log.append(f"git apply patch.diff -> rc {rc}")
        ok &= rc == 0
        rc, out = sh("cargo test --offline --workspace --no-fail-fast 2>&1", cwd=wt)
        p, f = counts(out)
        log.append(f"patched tree: cargo test --offline --workspace --no-fail-fast -> {p} passed, {f} failed")
        ok &= (p == 150 and f == 0)
        shutil.copy(os.path.join(src, "demo.rs"), os.path.join(wt, "tests", "seed_demo.rs"))
        rc, out = sh("cargo test --offline --test seed_demo 2>&1 | tail -30", cwd=wt)
        p, f = counts(out)
        log.append(f"patched tree + demo: cargo test --offline --test seed_demo -> {p} passed, {f} failed")
        ok &= f >= 1
    finally:
        sh(f"git -C /repo worktree remove --force {wt}; rm -rf {wt}; git -C /repo worktree prune")
    print(name, "CONFIRMED" if ok else "NOT CONFIRMED")
    for l in log:
        print("   ", l)
    if not ok:
        return 1
    dst = f"/verif/seeded/{name}"
    os.makedirs(dst, exist_ok=True)
    shutil.copy(os.path.join(src, "patch.diff"), dst)
    shutil.copy(os.path.join(src, "demo.rs"), dst)
    meta = json.load(open(os.path.join(src, "meta.json")))
    out_meta = {
        "property": meta.get("property"),
        "variant": meta.get("variant"),
        "breaks": meta.get("summary"),
        "needs_to_manifest": meta.get("needs_to_manifest"),
        "files_changed": meta.get("files_changed"),
        "written_by": "independent sub-agent given only the property text and a scratch worktree (no access to /verif)",
        "confirmed_by_me": log,
        "repo_head_when_confirmed": subprocess.run("git -C /repo rev-parse --short HEAD", shell=True, capture_output=True, text=True).stdout.strip(),
        "checks_run_against_it": [l for l in results.split("\n") if re.match(r"^C\d\d exit=", l)],
    }
    json.dump(out_meta, open(os.path.join(dst, "meta.json"), "w"), indent=1)
    return 0


if __name__ == "__main__":
    sys.exit(main())
