#!/bin/sh
# run every claimed check (quick tier by default) on the unchanged tree; print one line per check
cd "$(dirname "$0")/.."
TIER=${1:-quick}
for id in $(python3 -c "import json; print(' '.join(c['property_id'] for c in json.load(open('MANIFEST.json'))['checks']))"); do
  s=$(date +%s)
  out=$(./check $id --tier $TIER 2>&1); rc=$?
  e=$(date +%s)
  echo "$id rc=$rc $((e-s))s $(echo "$out" | grep -E 'VIOLATION|KNOWN-FINDING' | head -2 | tr '\n' ' ') $(echo "$out" | grep 'done in' | sed 's/.*done in/done in/')"
done
