#!/usr/bin/env python3
"""Certificate tables for lean/A5/Lemmas/PentagonDisjoint2.lean (planar C03: two cell pentagons of one depth).

Exact rational arithmetic (fractions) on the runtime constants of lean/A5/Gen/Runtime.lean; mirrors the Lean
definitions `localPent`, `childIJ`, `nextF`, `flipComp`, `reflK`, `stageRel`, `key` (A5/Lemmas/PentagonDisjoint*.lean).

  * closes the set of relative configurations (offset difference |D| <= 4, flips of both cells) of two different
    cells under one subdivision step and checks that only the 12 configurations of `Exc` are never reached,
  * collects, for the three orientation classes, the final configurations (D', flips, reflected?) with |D'| <= 2,
  * finds for each a separating edge with slack >= -2^-54 and the corner of the other pentagon where it is attained,
  * prints `MASK` (bit key(x) set) and `HINTS` (6 bits per key: 25*side + 5*edge + corner).

Nothing here is trusted: Lean re-checks every certificate (`cert_table`), the closure (`closure_table`) and the
coverage (`cfg_table`) by kernel evaluation.

usage: gen_pentagon_disjoint.py [--check]     (--check: compare with the literals in PentagonDisjoint2.lean)
"""
import re, sys, os
from fractions import Fraction as Fr

ROOT = os.path.join(os.path.dirname(os.path.abspath(__file__)), '..', 'lean', 'A5')
rt = open(os.path.join(ROOT, 'Gen', 'Runtime.lean')).read()
FC = r'⟨0x[0-9a-f]+, \((-?\d+)\), \((-?\d+)\)⟩'
def fc(num, exp): return Fr(int(num)) * (Fr(2) ** int(exp))
def pair(name):
    m = re.search(r'def %s : FConst × FConst := \(%s, %s\)' % (name, FC, FC), rt)
    return (fc(m.group(1), m.group(2)), fc(m.group(3), m.group(4)))
seed = [pair(n) for n in 'ABCDE']
W = pair('W')
mb = re.search(r'def BASIS : List FConst := \[(.*)\]', rt).group(1)
basis = tuple(fc(a, b) for a, b in re.findall(FC, mb))
assert len(basis) == 4

Q2F = [(1, 1), (1, -1), (1, 1), (-1, 1)]
KJPQ = {(1, 1): ((1, 0), (0, 1)), (-1, 1): ((0, -1), (-1, 0)), (1, -1): ((0, 1), (1, 0)), (-1, -1): ((-1, 0), (0, -1))}
COEFF = [(0, 0), (0, 1), (1, 1), (1, 2)]
flips4 = [(1, 1), (1, -1), (-1, 1), (-1, -1)]
def childIJ(d, F):
    p, q = KJPQ[F]; a, b = COEFF[d]
    k, j = a * q[0] + b * p[0], a * q[1] + b * p[1]
    return (k - j, j)
def nextF(d, F): return (F[0] * Q2F[d][0], F[1] * Q2F[d][1])
def rot180(p): return [(-x, -y) for x, y in p]
def reflectY(p): return [(x, -y) for x, y in p][::-1]
def translate(p, t): return [(x + t[0], y + t[1]) for x, y in p]
def reflK(k, F):
    f = F[0] + F[1]
    return ((f == -2 or f == 2) and k > 1) or (f == 0 and (k == 0 or k == 3))
def localPent(F, r):
    p = seed
    if F == (1, -1): p = rot180(p)
    if r: p = reflectY(p)
    if F == (-1, -1): p = rot180(p)
    elif F[0] == -1: p = translate(p, (-W[0], -W[1]))
    elif F[1] == -1: p = translate(p, W)
    return p
def basisMul(o): return (basis[0] * o[0] + basis[1] * o[1], basis[2] * o[0] + basis[3] * o[1])
def cross(a, b, q): return (b[0] - a[0]) * (q[1] - a[1]) - (b[1] - a[1]) * (q[0] - a[0])
def edges(P): return list(zip(P, P[1:] + P[:1]))
def flipComp(F):
    off = (0, 0)
    if F[0] == -1: off = (off[0] - 1, off[1] + 1)
    if F[1] == -1: off = (off[0] + 1, off[1] - 1)
    return off
def hexnorm(v): return max(abs(v[0]), abs(v[1]), abs(v[0] + v[1]))

R, MU = 4, Fr(1, 2 ** 54)
def exc(t):
    D, F1, F2 = t
    return D[0] == 0 and ((D[1] == 0 and F1[0] == F2[0]) or (D[1] == F1[0] and F2[0] == -F1[0] and F1[1] == F2[1]))
def good(t): return hexnorm(t[0]) <= R and not exc(t)
def same(t): return t[0] == (0, 0) and t[1] == t[2]
def child(t, a1, a2):
    D, F1, F2 = t
    c1, c2 = childIJ(a1, F1), childIJ(a2, F2)
    return ((2 * D[0] + c2[0] - c1[0], 2 * D[1] + c2[1] - c1[1]), nextF(a1, F1), nextF(a2, F2))
def stage_rel(inv, fl, D, F1, F2):
    if fl:
        c1, c2 = flipComp(F1), flipComp(F2)
        D = (D[1] + c2[0] - c1[0], D[0] + c2[1] - c1[1])
    if inv:
        D = (D[0], -(D[0] + D[1])); F1 = (-F1[0], F1[1]); F2 = (-F2[0], F2[1])
    return D, F1, F2
def fbits(F): return (2 if F[0] == -1 else 0) + (1 if F[1] == -1 else 0)
def key(x):
    D, (F1, r1), (F2, r2) = x
    return ((D[0] + 2) * 5 + (D[1] + 2)) * 64 + fbits(F1) * 16 + (8 if r1 else 0) + fbits(F2) * 2 + (1 if r2 else 0)

# reachability: the configurations reached from "a cell with itself, two different digits"
reach, todo = set(), []
for F in flips4:
    for a1 in range(4):
        for a2 in range(4):
            if a1 != a2:
                u = child(((0, 0), F, F), a1, a2)
                if hexnorm(u[0]) <= R and u not in reach: reach.add(u); todo.append(u)
while todo:
    t = todo.pop()
    for a1 in range(4):
        for a2 in range(4):
            u = child(t, a1, a2)
            if hexnorm(u[0]) <= R and u not in reach: reach.add(u); todo.append(u)
PL = [((i, j), F1, F2) for i in range(-R, R + 1) for j in range(-R, R + 1) for F1 in flips4 for F2 in flips4]
assert all((t in reach) == good(t) for t in PL if hexnorm(t[0]) <= R), "Exc is not the complement of the reachable set"

cfgs = set()
for t in PL:
    for a1 in range(4):
        for a2 in range(4):
            if not (good(t) or (same(t) and a1 != a2)): continue
            u = child(t, a1, a2)
            assert hexnorm(u[0]) > R or good(u)
            for inv, fl in [(False, False), (True, False), (False, True)]:
                D, F1, F2 = stage_rel(inv, fl, *u)
                if hexnorm(D) <= 2: cfgs.add((D, (F1, reflK(a1, F1)), (F2, reflK(a2, F2))))
def hint(P1, P2):
    best = None
    for side, (A_, B_) in enumerate(((P1, P2), (P2, P1))):
        for i, (a, b) in enumerate(edges(A_)):
            vals = [cross(a, b, v) for v in B_]
            m = min(vals); v = vals.index(m)
            if best is None or m > best[0]: best = (m, side, i, (v - 1) % 5)
    return best
mask = hints = 0; worst = 0; exact = 0
for x in cfgs:
    D, (F1, r1), (F2, r2) = x
    m, side, i, j = hint(localPent(F1, r1), translate(localPent(F2, r2), basisMul(D)))
    assert m >= -MU, (x, float(m))
    worst = min(worst, m); exact += (m >= 0)
    k = key(x); assert not (mask >> k) & 1
    mask |= 1 << k; hints |= (side * 25 + i * 5 + j) << (6 * k)
sys.stderr.write("configurations %d (exactly separated %d), worst slack %.4f * 2^-54\n"
                 % (len(cfgs), exact, float(worst * 2 ** 54)))
if '--check' in sys.argv:
    lean = open(os.path.join(ROOT, 'Lemmas', 'PentagonDisjoint2.lean')).read()
    ok = ("def MASK : Nat := 0x%x\n" % mask) in lean and ("def HINTS : Nat := 0x%x\n" % hints) in lean
    print("tables agree with PentagonDisjoint2.lean" if ok else "MISMATCH"); sys.exit(0 if ok else 1)
print("def MASK : Nat := 0x%x\n\ndef HINTS : Nat := 0x%x" % (mask, hints))
