#!/bin/sh
# usage: seed_one.sh <name e.g. C01-b> <check ids...>   (agent output expected in /tmp/seed/<name>/SEED_OUT)
# runs the checks against the patched tree in isolation (mutrun), then confirms the seed independently and files it.
name=$1; shift
src=/tmp/seed/$name/SEED_OUT
python3 /verif/tools/mutrun.py $src/patch.diff "$@" > /tmp/seed/$name.results 2>&1
python3 /verif/tools/confirm_seed.py $src $name /tmp/seed/$name.results > /tmp/seed/$name.confirm 2>&1
cat /tmp/seed/$name.confirm; cut -c1-600 /tmp/seed/$name.results
