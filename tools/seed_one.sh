#!/bin/sh
# usage: seed_one.sh <name e.g. C01-b> <check ids...>   (agent output expected in /tmp/seed/<name>/SEED_OUT)
# runs the checks against the patched tree in isolation (mutrun), then confirms the seed independently and files it.
name=$1; shift
base=${SEED_BASE:-/tmp/seed}
src=$base/$name/SEED_OUT
python3 /verif/tools/mutrun.py $src/patch.diff "$@" > $base/$name.results 2>&1
python3 /verif/tools/confirm_seed.py $src $name $base/$name.results > $base/$name.confirm 2>&1
cat $base/$name.confirm; cut -c1-600 $base/$name.results
