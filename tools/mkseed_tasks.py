#!/usr/bin/env python3
"""Prepare a wave of seeded-change tasks: one scratch worktree of /repo HEAD per property with a TASK.md that contains only the
property text, where it lives in the code, a description of what the checker does, and the deliverables.

usage: mkseed_tasks.py <base dir e.g. /tmp/seed7> <variant letter> [<ID> ...]"""
import json, os, subprocess, sys

TOOL = """The checker you are trying to get past works like this: (1) it has an independent executable reference model of the library and compares the library with it bit-for-bit on many sampled and structured inputs of every public function (random ids and points, all cells of low resolutions, every vertex and edge midpoint of all cells of resolutions 2-4, cells and points next to poles, the antimeridian, dodecahedron edges, vertices and face centres at log-uniform distances down to 1e-15, longitudes several turns away, deep resolutions up to 29, malformed inputs), also in shuffled order, with each call repeated, with rejected calls in between, directly before and after closely related calls (same id with one digit changed, one level deeper or shallower, another face or quintant, coordinates exchanged, followed by calls on the id a lookup returned), in debug and release builds, from 8 threads at once, hammered by 8 threads, from freshly constructed projection objects, and from thread-local destructors during thread teardown; (2) it also runs BULK requests - cell_to_children / uncompact with up to 7*10^7 results, compact on up to 5*10^6 input cells (complete fills, duplicates, non-canonical spellings, the longest merge cascades from resolution 29 up to the world cell), cell_to_boundary with up to 2*10^6 segments per edge - and compares hashes of the full results; (3) for the lookup it mines 10^7..10^8 random points for hard cases (fallback branch, many probes) and examines those; for the projection it targets points where internal parameters take round values (1/2, 1/4, 1/3 ...); (4) it runs independent oracles for the property itself (set semantics of the cell tree, point-in-spherical-polygon and area integrators, round trips) on those samples with the property's own tolerances; (5) constants and tables in the source are re-read on every run, and the start-up constants (pentagon, basis, the 240 spherical triangles) are compared bit for bit; (6) it keeps an inventory of every `static` / `thread_local!` / `lazy_static!` item and of the fields of every struct in src/, and raises an alarm when that inventory changes (so a new cache, memo table, scratch buffer or counter is noticed as such, whatever its key). It does NOT otherwise read the source code of function bodies.
So: changes whose effect is visible on a noticeable fraction of such inputs will be caught. Look for a REALISTIC change (something a maintainer could commit: an optimisation, a special case "for correctness", a robustness fix, a refactor, a changed default) that breaks the property only in a region or mode that all of the above is unlikely to reach, or only in a combination of circumstances (a specific pairing of arguments, an unusual but valid way of using the public API, a particular sequence of three or more calls, a particular list shape, a particular relation between two arguments), or only by an amount just above the property's stated tolerance. Do not build an artificial backdoor keyed on one magic constant - it must have a plausible engineering rationale."""


def main():
    base, var = sys.argv[1], sys.argv[2]
    want = set(sys.argv[3:])
    os.makedirs(base, exist_ok=True)
    for line in open("/verif/properties.jsonl"):
        p = json.loads(line)
        pid = p["id"]
        if want and pid not in want:
            continue
        wt = f"{base}/{pid}-{var}"
        subprocess.run(["git", "-C", "/repo", "worktree", "add", "--detach", wt, "HEAD"], stdout=subprocess.DEVNULL, stderr=subprocess.DEVNULL)
        a = p.get("anchors", {})
        where = "files " + ", ".join(a.get("files", [])) + ".\n" + "\n".join(f"- {m['name']} [{m['where']}]" for m in a.get("mechanism", []) + a.get("state", []) if "where" in m)
        obs = ", ".join(a.get("observe_at", []))
        t = f"""You are helping to evaluate a verification tool by writing one realistic *regression* for a Rust library. Work ONLY inside the git worktree at {wt} (a checkout of the crate `a5`, a pentagonal equal-area discrete global grid system: 64-bit cell IDs, Hilbert-curve indexing, dodecahedral projection). Do NOT read or touch /verif, /repo, or any other directory under /tmp - your work must be independent of everything else on this machine. The sandbox is offline (no network): always pass `--offline` to cargo and set CARGO_NET_OFFLINE=true. Do NOT use `git stash` (the stash is shared between worktrees of this repository); to test on the clean tree use `git diff > {wt}/my.patch; git checkout -- src; ...; git apply my.patch`.

THE PROPERTY

Property {pid}: {p['title']}

{p['statement']}

Where it lives in the code: {where}
Observable at: {obs}

WHAT THE TOOL UNDER EVALUATION DOES (so that you can aim at its blind spots)

{TOOL}

YOUR TASK

Produce ONE change to the library source (files under src/ only; do not edit tests/, benches, fixtures or Cargo.toml) that BREAKS this property while
 (1) the crate still compiles (both `cargo build` and `cargo build --release`), and
 (2) the existing test-suite still passes in full: `cd {wt} && CARGO_NET_OFFLINE=true cargo test --offline --workspace --no-fail-fast` must still report 150 passed, 0 failed in total.

DELIVERABLES in {wt}/SEED_OUT/ (create the directory):
 - patch.diff : output of `git diff` for your src change; it must apply with `git apply` to the clean HEAD of the worktree.
 - demo.rs    : a self-contained integration-test file (it will be copied to tests/seed_demo.rs) using only the crate's public API (`a5::...`) and std, no dev-dependencies beyond those already in Cargo.toml, with one or more #[test] functions that PASS on the clean tree and FAIL with your patch applied under plain `cargo test --offline --test seed_demo`. The demo must show the violation of the property itself, not merely "output differs from before", and must not pin which of several equally valid answers the library gives (e.g. which of the cells meeting at a vertex a lookup of that exact vertex returns).
 - meta.json  : {{"property": "{pid}", "variant": "{var}", "summary": "<what the change does and why it breaks the property>", "needs_to_manifest": "<the specific input / sequence / region / mode needed and why sampling is unlikely to reach it>", "files_changed": ["src/..."]}}

Verify all three facts yourself before finishing: clean tree + demo -> passes; patched tree without demo -> 150 existing tests pass; patched tree + demo -> demo fails. Then leave the worktree clean: `git checkout -- src` and remove tests/seed_demo.rs (keep SEED_OUT/). Finish with a 5-line report: what you changed, what it needs to manifest, and the three verification results.
"""
        open(f"{wt}/TASK.md", "w").write(t)
        print(wt)


main()
