#!/usr/bin/env python3
"""Summarise /verif/seeded/*/meta.json: per wave, how each filed change is reported by the check(s) run against it."""
import json, glob, os, re, collections
rows = collections.defaultdict(lambda: collections.Counter())
detail = collections.defaultdict(list)
for d in sorted(glob.glob("/verif/seeded/C*-*")):
    name = os.path.basename(d)
    wave = name.split("-")[1]
    try:
        m = json.load(open(d + "/meta.json"))
    except Exception:
        continue
    lines = m.get("checks_run_against_it", [])
    own = name[:3]
    concrete_q = [l for l in lines if " exit=1 " in l and "no-failing-input-found" not in l and "[tier thorough]" not in l]
    concrete_t = [l for l in lines if " exit=1 " in l and "no-failing-input-found" not in l and "[tier thorough]" in l]
    tie = [l for l in lines if "no-failing-input-found" in l]
    if any(l.startswith(own) for l in concrete_q):
        k = "concrete input, own check, quick tier"
    elif concrete_q:
        k = "concrete input, another property's check, quick tier"
    elif concrete_t:
        k = "concrete input, thorough tier only"
    elif tie:
        k = "broken tie only (no failing input)"
    else:
        k = "silent"
    rows[wave][k] += 1
    if not k.startswith("concrete input, own check"):
        detail[k].append(name)
for w in sorted(rows):
    print(f"wave {w}: " + "; ".join(f"{v} {k}" for k, v in rows[w].most_common()))
for k, v in detail.items():
    print(f"{k}: {' '.join(v)}")
