#!/usr/bin/env python3
"""Fingerprints of the Rust sources: sha256 of each file's token stream with comments and whitespace removed.

usage: fingerprint.py [--repo DIR] --write FILE     record the fingerprints of the current tree (done once per reference tree)
       fingerprint.py [--repo DIR] --diff FILE      print the files whose fingerprint differs from the recorded one

A changed fingerprint is never a verdict: the checks use it only to decide how hard to search (a check of the quick tier
on a tree whose sources differ from the reference tree runs its correspondence and oracle search at the thorough budget)."""
import hashlib, json, os, re, sys


def strip(src):
    out, i, n = [], 0, len(src)
    while i < n:
        c = src[i]
        if src.startswith("//", i):
            j = src.find("\n", i)
            i = n if j < 0 else j
        elif src.startswith("/*", i):
            depth, i = 1, i + 2
            while i < n and depth:
                if src.startswith("/*", i):
                    depth += 1; i += 2
                elif src.startswith("*/", i):
                    depth -= 1; i += 2
                else:
                    i += 1
        elif c == '"':
            j = i + 1
            while j < n and src[j] != '"':
                j += 2 if src[j] == "\\" else 1
            out.append(src[i:j + 1]); i = j + 1
        else:
            out.append(c); i += 1
    txt = "".join(out)
    return re.sub(r"\s+", " ", txt).strip()


def fingerprints(repo):
    res = {}
    for root, _, files in os.walk(os.path.join(repo, "src")):
        for f in sorted(files):
            if f.endswith(".rs"):
                p = os.path.join(root, f)
                res[os.path.relpath(p, repo)] = hashlib.sha256(strip(open(p, encoding="utf-8", errors="replace").read()).encode()).hexdigest()
    ct = os.path.join(repo, "Cargo.toml")
    if os.path.exists(ct):
        res["Cargo.toml"] = hashlib.sha256(strip(open(ct).read()).encode()).hexdigest()
    return res


def diff(repo, ref_file):
    ref = json.load(open(ref_file))["files"]
    cur = fingerprints(repo)
    return sorted(k for k in set(ref) | set(cur) if ref.get(k) != cur.get(k))


if __name__ == "__main__":
    repo = "/repo"
    a = sys.argv[1:]
    if "--repo" in a:
        repo = a[a.index("--repo") + 1]
    if "--write" in a:
        import subprocess
        head = subprocess.run(["git", "-C", repo, "rev-parse", "HEAD"], capture_output=True, text=True).stdout.strip()
        json.dump({"reference_tree": head, "files": fingerprints(repo)}, open(a[a.index("--write") + 1], "w"), indent=1, sort_keys=True)
    elif "--diff" in a:
        for f in diff(repo, a[a.index("--diff") + 1]):
            print(f)
