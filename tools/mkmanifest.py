#!/usr/bin/env python3
"""Regenerate /verif/MANIFEST.json from the claims table below (keeps the file schema-valid).
A property is claimed as soon as vlib/props/<ID>.py and lean/A5/Props/<ID>.lean exist; everything
else is listed under not_applicable with the reason given here."""
import json, os, subprocess

VERIF = os.path.dirname(os.path.dirname(os.path.abspath(__file__)))
ALL = [f"C{i:02d}" for i in range(1, 21)]

NOTE_COMMON = ("Trusted: Lean 4.33 kernel; axioms propext/Classical.choice/Quot.sound only (audited per theorem, no sorry/native_decide/bv_decide); "
               "tools/translate.py regenerates the tables from /repo/src on every run; function bodies are hand-modelled (A5/Model/*) and tied to the code "
               "by the bit-exact differential correspondence run of this check (Rust harness vs Lean driver on the same request lines); "
               "Rust std semantics (checked/wrapping ints, from_str_radix, format!, sort, HashSet, thread_local) are assumed as modelled.")

CLAIMS = {}


def claim(pid, text, technique, design_ref, note_extra=""):
    CLAIMS[pid] = dict(text=text, technique=technique, design_ref=design_ref, note=(NOTE_COMMON + " " + note_extra).strip())


exec(open(os.path.join(VERIF, "tools", "claims.py")).read())


def main():
    src_commits = subprocess.run(["git", "-C", "/repo", "log", "--format=%H %s", "d731376..HEAD"], capture_output=True, text=True).stdout.strip().split("\n")
    hooks_commits = [l.split()[0] for l in src_commits if l and "verif hook" in l]
    checks = []
    na = []
    for pid in ALL:
        have = os.path.exists(os.path.join(VERIF, "vlib", "props", pid + ".py")) and os.path.exists(os.path.join(VERIF, "lean", "A5", "Props", pid + ".lean"))
        if pid in CLAIMS and have:
            c = CLAIMS[pid]
            checks.append({
                "property_id": pid,
                "quick_cmd": f"./check {pid} --tier quick",
                "thorough_cmd": f"./check {pid} --tier thorough",
                "evidence_file": f"/verif/evidence/{pid}.json",
                "replay_cmd_template": f"./check {pid} --replay {{path}}",
                "engine": "lean4-proof+correspondence",
                "level_claimed": {"category": "proof", "text": c["text"], "design_ref": c["design_ref"]},
                "level_note": c["note"],
                "technique": c["technique"],
            })
        else:
            na.append({"property_id": pid, "reason": "not claimed yet: Lean theorems and correspondence suite for this property are still being built in this round (planned per DESIGN.md section 6; the technique applies)"})
    m = {
        "version": 1,
        "setup_cmd": "./setup.sh",
        "hooks": {
            "guard": "verif",
            "enable": "cargo feature `verif` (a5 = { path = \"/repo\", features = [\"verif\"] } in /verif/harness/Cargo.toml)",
            "baseline_off_cmd": "cd /repo && cargo test --workspace --no-fail-fast --offline",
            "source_commits": hooks_commits,
            "add_only": True,
        },
        "engines": [{
            "name": "lean4-proof+correspondence",
            "path": "/verif/check",
            "serves_properties": [c["property_id"] for c in checks],
            "kind_free_text": "Lean 4 theorems about a hand-written executable model (lean/A5), tables regenerated from the Rust source by tools/translate.py, "
                              "bit-exact differential correspondence between the model driver (lean_exe a5driver) and the real library (harness/), oracle search for replays",
        }],
        "checks": checks,
        "not_applicable": na,
        "notes": "See DESIGN.md. Genuine defects found are recorded in known_findings.json (fixed: entries refer to fix: commits in /repo).",
    }
    json.dump(m, open(os.path.join(VERIF, "MANIFEST.json"), "w"), indent=1)
    print(f"{len(checks)} claimed, {len(na)} not claimed")


main()
