# claims table, exec'd by mkmanifest.py
claim("C05",
      "[full] Theorems for ALL inputs about the model of serialize/deserialize/get_resolution/u64_to_hex/hex_to_u64: encoder closed form = documented layout, "
      "decode.encode = id on every valid description, encode.decode = id on every id in the layout, layout = image of the encoder, resolution read-back, injectivity, "
      "per-face quintant rotation bijective (on the tables regenerated from origin.rs), every successful decode re-encodes canonically, decoder and hex parser total; "
      "hex round trip for all n < 2^64, format 1-16 lower-case digits without leading zero, empty/oversized strings rejected. "
      "The model is tied to the code by exhaustive correspondence for all cells r<=5 (quick) / r<=8 (thorough) plus random, malformed and string streams; "
      "an independent layout oracle judges the implementation's outputs and supplies replays.",
      "Lean 4 proof (omega over literal powers of two, 28-way resolution split, list induction for hex) + generated tables + differential model/impl correspondence",
      "DESIGN.md section 6 C05")
claim("C06",
      "[full] tables_unchanged: every table and constant regenerated from the current Rust source by the translator (PATTERN/PATTERN_FLIPPED, flips and KJ tables, "
      "orientation sets, quintant layouts, QUINTANT_FIRST, ORIGIN_ORDER, QUATERNIONS, LONGITUDE_OFFSET, all of constants.rs, authalic coefficients, thresholds, probe count/scale, "
      "memo layout, cell-area table ...; 90 items, floats by IEEE bit pattern and exact dyadic value) equals the frozen tables of the reference release - a kernel-checked equality per item, "
      "re-checked on every run against what the code says now. The model bodies are frozen against v0.6.2(+fix commits) and the bit-exact correspondence on the golden requests is the comparison "
      "of function bodies with the reference semantics (translation validation). [search] replay of a frozen golden table generated once from the pinned release: 13.6k ids -> centre+corners "
      "(every face x quintant x resolution) and 51k (lon,lat,res) -> id rows; ids must be equal wherever the reference contained the point and was stable under 1e-9 deg perturbation, "
      "centres/corners within 1e-9 deg.",
      "Lean 4 proof of table identity (decide +kernel per generated item) + frozen golden-table replay + bit-exact model/impl correspondence",
      "DESIGN.md section 6 C06",
      "The golden table was produced by a scratch crate linked against a worktree of the pinned commit d731376 (deleted afterwards).")
claim("C20",
      "[full] Theorems for ALL cells and all 28 curve levels (no case split on the resolution) about the spec encoding enc (shown equal to the model's serialize by C05/C07 lemmas) and the model's "
      "get_stride / is_first_child: subtree_interval (for res >= 1: q is p or a descendant of p iff lo p <= id q <= hi p, with lo/hi attained by subtree cells), ancestors_monotone, "
      "descendants_ordered / subtrees_ordered, siblings_adjacent (children are c0 + j*stride with the model's stride, is_first_child true exactly for j = 0, no foreign same-resolution id in between), "
      "base_cells_interleave (the stated exception, for every face). Two tempting stronger statements are kept as _statement defs with kernel-checked refutations. "
      "Tie to the code: correspondence of cell_to_parent / cell_to_children / is_first_child / get_stride on pairs straddling parent boundaries at every level; integer-comparison oracle on the implementation's output.",
      "Lean 4 proof (omega/grind over closed forms of the id layout; induction over digit lists) + differential model/impl correspondence",
      "DESIGN.md section 6 C20")
claim("C13",
      "[full, for the model] The projection cache is modelled as an explicit state machine (A5.Memo: 30 + 240 slots, slot functions built from the constants regenerated from dodecahedron.rs, "
      "nested squashed-triangle fetch, CRS counter), generic in the value functions. Theorems for ALL histories and ALL interleavings: slot_sound (equal slot => equal value; all slots in range; every slot reachable), "
      "memo_refines_pure (invariant 'every filled slot holds the pure value of its keys' holds initially and is preserved; every call returns the stateless result after any history, in any fill order), "
      "threads_independent (any interleaving of per-thread call sequences: each step returns the pure result and touches only its own component), crs_quiet (<= 720 < 10000 CRS lookups, so the stderr warning is unreachable; "
      "its hypothesis that all 240 triangles compute is checked by evaluation on every run), ok_stays_ok/err_stays_err. The release's history-dependent inverse(origin 12..23) is kept as a kernel-checked counterexample against the frozen v0.6.2 model (repaired by fix d95ab4f). "
      "[runtime, partial] Tie to the code = this check: thread histories executed in fresh threads of the real library (random and fill-all-270-slots orders, warm replays) must give the model's results bit-for-bit AND the slot-fill bitmap the state machine predicts (hook verif_memo_fill); "
      "public API calls fresh vs after prefixes vs under 8-16 concurrent threads must be bit-identical. Data-race freedom of the Rust runtime primitives is assumed, not proved.",
      "Lean 4 proof (invariant by induction over histories and interleavings of a memo state machine) + bitmap/bit-exact differential runs against the real library in fresh and concurrent threads",
      "DESIGN.md section 6 C13",
      "Lean cannot observe Rust's memory model: thread_local!/OnceLock/LazyLock/lazy_static and the &'static mut from get_thread_local are trusted; the concurrent runs exercise them.")
claim("C07",
      "[full] Refinement theorems for ALL cells and ALL target resolutions (no bound on fan-out): the model's cell_to_parent / cell_to_children / get_res0_cells equal the inductive tree spec (A5.Spec.Tree: world / face / deep paths) "
      "through the encoding: cellToParent (enc p) r' = enc (ancestorAt p r') with the exact error cases, cellToChildren (enc p) r' = (descendantsOrdered p r').map enc in the library's order with the exact error cases "
      "(targetCoarser, exceedsMax, diffTooLarge beyond 20 levels, resTooLarge at 30). Corollaries = the sentences of the property: children distinct, of the target resolution, exactly 12/5/4-per-level many (closed product form), each with the cell as ancestor; "
      "ancestor lookup composes; children of children = children at the deeper level (as lists); every non-world cell has exactly one parent; the children of all cells of level r enumerate level r+1 exactly once. "
      "Tie to the code: correspondence on every cell r<=3 (quick) / r<=6 (thorough) x every admissible target, random cells to r=29, sequences compared in order; independent tree oracle on the implementation's output.",
      "Lean 4 proof (refinement of the bit-level hierarchy functions to an inductive tree spec; induction over digit lists) + differential model/impl correspondence",
      "DESIGN.md section 6 C07")
claim("C09",
      "[full] uncompact_closed_form (complete behaviour on any list of canonical ids) and uncompact_spec: for every list of cells and target R <= 29 with every input no finer than R (and within the 20-level per-call guard and the capacity guard, stated explicitly) "
      "uncompact = concatenation, in input order, of each input's descendants at R; corollaries: outputs canonical, of resolution R, descending from their input, per-input blocks distinct, total length = sum of fan-outs; exceedsMax iff R >= 30; "
      "targetCoarser exactly when some input is finer (under the no-overflow condition; the unconditional statement is refuted by a kernel-checked witness whose pre-count overflows: 18 world cells, outside the bounded-fan-out scope); "
      "precount_harmless: the get_num_children == 1 shortcut is taken iff the resolutions are equal, including the inexact rows 28/29 of get_num_cells. "
      "Tie to the code: correspondence on random mixed-resolution lists x targets -1..29 and out-of-range targets; independent per-input-block oracle.",
      "Lean 4 proof (closed form of the two-phase loop, refinement to the tree spec) + differential model/impl correspondence",
      "DESIGN.md section 6 C09")
claim("C08",
      "[full, on the repaired code] For EVERY finite list of valid ids (any order, duplicates, overlaps, non-canonical aliases): compact succeeds, canonicalises its input, returns a list strictly sorted by the hierarchy key (hence duplicate-free), "
      "covers exactly the same region (compact_preserves_region / compact_preserves_descendants at every R at least as fine as the inputs; uncompact_compact_same_cells at model level), and depends only on the SET of input cells "
      "(compact_depends_on_cells_only, compact_input_order_irrelevant). Ingredients proved: hierarchy key injective and every cell strictly between its first and last child, groupAt recognises exactly a contiguous complete sibling group starting at a first child, "
      "one scan preserves region and strict sortedness, the loop terminates within its fuel. The pinned release's violations (duplicate base cell; [0,0]) are kept as kernel-checked witnesses against the frozen v0.6.2 algorithm (repaired by fix 7104abb). "
      "Tie to the code: correspondence (as sets) on antichains, staged-complete subdivisions and overlapping/duplicate mixes in several orders; independent cover oracle; uncompact observation.",
      "Lean 4 proof (invariants of the compaction scan: region, strict key order, termination measure) + differential model/impl correspondence",
      "DESIGN.md section 6 C08")
claim("C10",
      "[full, on the repaired code] Pure tree theory (canonical_unique: two antichains without a complete sibling group that cover the same region have the same members) plus the model-level theorems for every non-overlapping input: "
      "sorted_antichain_siblings_adjacent (in a key-sorted antichain a complete sibling group is contiguous and starts at the first child), pass_keeps_antichain (the code's 'no re-sorting needed' comment as a theorem), "
      "compact_maximal (no complete group of 12 / 5 / 4 remains), compact_idempotent, compact_canonical (same region => equal result lists) and its converse. The pinned release's failure to merge the whole sphere is a kernel-checked witness against the frozen v0.6.2 algorithm. "
      "Tie to the code: correspondence on antichains and fully subdivided roots over several faces whose groups complete only after earlier merges, each paired with a re-subdivided antichain of the same region; independent canonical-cover oracle; second compaction.",
      "Lean 4 proof (order-theoretic uniqueness of the canonical cover; scan invariants on key-sorted antichains) + differential model/impl correspondence",
      "DESIGN.md section 6 C10")
claim("C14",
      "[full for the integer API] int_api_total: for EVERY id, EVERY integer resolution and EVERY finite list none of deserialize, cell_to_parent, cell_to_children, get_res0_cells, get_num_cells, get_num_children (child <= 29), hex parsing, compact (no hypothesis at all: termination within fuel and absence of overflow in the sibling scan are theorems), "
      "uncompact (under the property's own bounded-result scope, stated as a sum < 2^60) returns a panic (the model keeps every checked-arithmetic / index / fuel panic of the overflow-checked build as an outcome); int_api_valid_results: ok results are canonical ids of the requested resolution; aliasing: every call on a non-canonical id equals the call on its canonical alias; "
      "errors_exact: out-of-range resolutions are rejected, never wrapped. [partial, float-dependent] lookup_outcomes (C01): lonlat_to_cell can only end in ok, err crsVertex or the float-dependent notCCW panic; index/overflow panics are ruled out for all inputs. "
      "Panics, aborts and hangs of the real code are observed by the correspondence run itself: the malformed stream runs through an overflow-checked debug build AND a release build in a memory-limited child process, and every outcome class must equal the model's. "
      "The eight crash/garbage defects of the pinned release are repaired (fix: commits) and their inputs run first as a corpus.",
      "Lean 4 proof (totality of an outcome-typed model incl. termination measure) + outcome-class correspondence in debug and release builds under process isolation",
      "DESIGN.md section 6 C14")
