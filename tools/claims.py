# claims table, exec'd by mkmanifest.py
claim("C05",
      "[full] Theorems for ALL inputs about the model of serialize/deserialize/get_resolution/u64_to_hex/hex_to_u64: encoder closed form = documented layout, "
      "decode.encode = id on every valid description, encode.decode = id on every id in the layout, layout = image of the encoder, resolution read-back, injectivity, "
      "per-face quintant rotation bijective (on the tables regenerated from origin.rs), every successful decode re-encodes canonically, decoder and hex parser total; "
      "hex round trip for all n < 2^64, format 1-16 lower-case digits without leading zero, empty/oversized strings rejected. "
      "The model is tied to the code by exhaustive correspondence for all cells r<=5 (quick) / r<=8 (thorough) plus random, malformed and string streams; "
      "an independent layout oracle judges the implementation's outputs and supplies replays.",
      "Lean 4 proof (omega over literal powers of two, 28-way resolution split, list induction for hex) + generated tables + differential model/impl correspondence",
      "DESIGN.md section 6 C05")
claim("C06",
      "[full] tables_unchanged: every table and constant regenerated from the current Rust source by the translator (PATTERN/PATTERN_FLIPPED, flips and KJ tables, "
      "orientation sets, quintant layouts, QUINTANT_FIRST, ORIGIN_ORDER, QUATERNIONS, LONGITUDE_OFFSET, all of constants.rs, authalic coefficients, thresholds, probe count/scale, "
      "memo layout, cell-area table ...; 90 items, floats by IEEE bit pattern and exact dyadic value) equals the frozen tables of the reference release - a kernel-checked equality per item, "
      "re-checked on every run against what the code says now. The model bodies are frozen against v0.6.2(+fix commits) and the bit-exact correspondence on the golden requests is the comparison "
      "of function bodies with the reference semantics (translation validation). [search] replay of a frozen golden table generated once from the pinned release: 13.6k ids -> centre+corners "
      "(every face x quintant x resolution) and 51k (lon,lat,res) -> id rows; ids must be equal wherever the reference contained the point and was stable under 1e-9 deg perturbation, "
      "centres/corners within 1e-9 deg.",
      "Lean 4 proof of table identity (decide +kernel per generated item) + frozen golden-table replay + bit-exact model/impl correspondence",
      "DESIGN.md section 6 C06",
      "The golden table was produced by a scratch crate linked against a worktree of the pinned commit d731376 (deleted afterwards).")
claim("C20",
      "[full] Theorems for ALL cells and all 28 curve levels (no case split on the resolution) about the spec encoding enc (shown equal to the model's serialize by C05/C07 lemmas) and the model's "
      "get_stride / is_first_child: subtree_interval (for res >= 1: q is p or a descendant of p iff lo p <= id q <= hi p, with lo/hi attained by subtree cells), ancestors_monotone, "
      "descendants_ordered / subtrees_ordered, siblings_adjacent (children are c0 + j*stride with the model's stride, is_first_child true exactly for j = 0, no foreign same-resolution id in between), "
      "base_cells_interleave (the stated exception, for every face). Two tempting stronger statements are kept as _statement defs with kernel-checked refutations. "
      "Tie to the code: correspondence of cell_to_parent / cell_to_children / is_first_child / get_stride on pairs straddling parent boundaries at every level; integer-comparison oracle on the implementation's output.",
      "Lean 4 proof (omega/grind over closed forms of the id layout; induction over digit lists) + differential model/impl correspondence",
      "DESIGN.md section 6 C20")
claim("C13",
      "[full, for the model] The projection cache is modelled as an explicit state machine (A5.Memo: 30 + 240 slots, slot functions built from the constants regenerated from dodecahedron.rs, "
      "nested squashed-triangle fetch, CRS counter), generic in the value functions. Theorems for ALL histories and ALL interleavings: slot_sound (equal slot => equal value; all slots in range; every slot reachable), "
      "memo_refines_pure (invariant 'every filled slot holds the pure value of its keys' holds initially and is preserved; every call returns the stateless result after any history, in any fill order), "
      "threads_independent (any interleaving of per-thread call sequences: each step returns the pure result and touches only its own component), crs_quiet (<= 720 < 10000 CRS lookups, so the stderr warning is unreachable; "
      "its hypothesis that all 240 triangles compute is checked by evaluation on every run), ok_stays_ok/err_stays_err. The release's history-dependent inverse(origin 12..23) is kept as a kernel-checked counterexample against the frozen v0.6.2 model (repaired by fix d95ab4f). "
      "[runtime, partial] Tie to the code = this check: thread histories executed in fresh threads of the real library (random and fill-all-270-slots orders, warm replays) must give the model's results bit-for-bit AND the slot-fill bitmap the state machine predicts (hook verif_memo_fill); "
      "public API calls fresh vs after prefixes vs under 8-16 concurrent threads must be bit-identical. Data-race freedom of the Rust runtime primitives is assumed, not proved.",
      "Lean 4 proof (invariant by induction over histories and interleavings of a memo state machine) + bitmap/bit-exact differential runs against the real library in fresh and concurrent threads",
      "DESIGN.md section 6 C13",
      "Lean cannot observe Rust's memory model: thread_local!/OnceLock/LazyLock/lazy_static and the &'static mut from get_thread_local are trusted; the concurrent runs exercise them.")
claim("C07",
      "[full] Refinement theorems for ALL cells and ALL target resolutions (no bound on fan-out): the model's cell_to_parent / cell_to_children / get_res0_cells equal the inductive tree spec (A5.Spec.Tree: world / face / deep paths) "
      "through the encoding: cellToParent (enc p) r' = enc (ancestorAt p r') with the exact error cases, cellToChildren (enc p) r' = (descendantsOrdered p r').map enc in the library's order with the exact error cases "
      "(targetCoarser, exceedsMax, diffTooLarge beyond 20 levels, resTooLarge at 30). Corollaries = the sentences of the property: children distinct, of the target resolution, exactly 12/5/4-per-level many (closed product form), each with the cell as ancestor; "
      "ancestor lookup composes; children of children = children at the deeper level (as lists); every non-world cell has exactly one parent; the children of all cells of level r enumerate level r+1 exactly once. "
      "Tie to the code: correspondence on every cell r<=3 (quick) / r<=6 (thorough) x every admissible target, random cells to r=29, sequences compared in order; independent tree oracle on the implementation's output.",
      "Lean 4 proof (refinement of the bit-level hierarchy functions to an inductive tree spec; induction over digit lists) + differential model/impl correspondence",
      "DESIGN.md section 6 C07")
claim("C09",
      "[full] uncompact_closed_form (complete behaviour on any list of canonical ids) and uncompact_spec: for every list of cells and target R <= 29 with every input no finer than R (and within the 20-level per-call guard and the capacity guard, stated explicitly) "
      "uncompact = concatenation, in input order, of each input's descendants at R; corollaries: outputs canonical, of resolution R, descending from their input, per-input blocks distinct, total length = sum of fan-outs; exceedsMax iff R >= 30; "
      "targetCoarser exactly when some input is finer (under the no-overflow condition; the unconditional statement is refuted by a kernel-checked witness whose pre-count overflows: 18 world cells, outside the bounded-fan-out scope); "
      "precount_harmless: the get_num_children == 1 shortcut is taken iff the resolutions are equal, including the inexact rows 28/29 of get_num_cells. "
      "Tie to the code: correspondence on random mixed-resolution lists x targets -1..29 and out-of-range targets; independent per-input-block oracle.",
      "Lean 4 proof (closed form of the two-phase loop, refinement to the tree spec) + differential model/impl correspondence",
      "DESIGN.md section 6 C09")
claim("C08",
      "[full, on the repaired code] For EVERY finite list of valid ids (any order, duplicates, overlaps, non-canonical aliases): compact succeeds, canonicalises its input, returns a list strictly sorted by the hierarchy key (hence duplicate-free), "
      "covers exactly the same region (compact_preserves_region / compact_preserves_descendants at every R at least as fine as the inputs; uncompact_compact_same_cells at model level), and depends only on the SET of input cells "
      "(compact_depends_on_cells_only, compact_input_order_irrelevant). Ingredients proved: hierarchy key injective and every cell strictly between its first and last child, groupAt recognises exactly a contiguous complete sibling group starting at a first child, "
      "one scan preserves region and strict sortedness, the loop terminates within its fuel. The pinned release's violations (duplicate base cell; [0,0]) are kept as kernel-checked witnesses against the frozen v0.6.2 algorithm (repaired by fix 7104abb). "
      "Tie to the code: correspondence (as sets) on antichains, staged-complete subdivisions and overlapping/duplicate mixes in several orders; independent cover oracle; uncompact observation.",
      "Lean 4 proof (invariants of the compaction scan: region, strict key order, termination measure) + differential model/impl correspondence",
      "DESIGN.md section 6 C08")
claim("C10",
      "[full, on the repaired code] Pure tree theory (canonical_unique: two antichains without a complete sibling group that cover the same region have the same members) plus the model-level theorems for every non-overlapping input: "
      "sorted_antichain_siblings_adjacent (in a key-sorted antichain a complete sibling group is contiguous and starts at the first child), pass_keeps_antichain (the code's 'no re-sorting needed' comment as a theorem), "
      "compact_maximal (no complete group of 12 / 5 / 4 remains), compact_idempotent, compact_canonical (same region => equal result lists) and its converse. The pinned release's failure to merge the whole sphere is a kernel-checked witness against the frozen v0.6.2 algorithm. "
      "Tie to the code: correspondence on antichains and fully subdivided roots over several faces whose groups complete only after earlier merges, each paired with a re-subdivided antichain of the same region; independent canonical-cover oracle; second compaction.",
      "Lean 4 proof (order-theoretic uniqueness of the canonical cover; scan invariants on key-sorted antichains) + differential model/impl correspondence",
      "DESIGN.md section 6 C10")
claim("C14",
      "[full for the integer API] int_api_total: for EVERY id, EVERY integer resolution and EVERY finite list none of deserialize, cell_to_parent, cell_to_children, get_res0_cells, get_num_cells, get_num_children (child <= 29), hex parsing, compact (no hypothesis at all: termination within fuel and absence of overflow in the sibling scan are theorems), "
      "uncompact (under the property's own bounded-result scope, stated as a sum < 2^60) returns a panic (the model keeps every checked-arithmetic / index / fuel panic of the overflow-checked build as an outcome); int_api_valid_results: ok results are canonical ids of the requested resolution; aliasing: every call on a non-canonical id equals the call on its canonical alias; "
      "errors_exact: out-of-range resolutions are rejected, never wrapped. contains_panics_iff_not_ccw (for all float values the only panic of contains_point is the failed winding test) and exact_pentagon_passes_winding (in exact arithmetic on the runtime constants the pentagon of every anchor at every scale and rotation passes it strictly). [partial, float-dependent] lookup_outcomes (C01): lonlat_to_cell can only end in ok, err crsVertex or the float-dependent notCCW panic; index/overflow panics are ruled out for all inputs. "
      "Panics, aborts and hangs of the real code are observed by the correspondence run itself: the malformed stream runs through an overflow-checked debug build AND a release build in a memory-limited child process, and every outcome class must equal the model's. "
      "The eight crash/garbage defects of the pinned release are repaired (fix: commits) and their inputs run first as a corpus.",
      "Lean 4 proof (totality of an outcome-typed model incl. termination measure) + outcome-class correspondence in debug and release builds under process isolation",
      "DESIGN.md section 6 C14")
claim("C04",
      "[full] Metadata: num_cells_exact (12, then 60*4^(r-1) for r <= 27; the JavaScript-rounded literals at 28..30 differ by 40/160/360 and denote the same f64), cell_area_is_quotient (all 31 tabulated areas, as exact rationals, are within 2^-52 relative of AUTHALIC_AREA / N(r) with the exact N; "
      "the six rows that are one ulp off the correctly rounded f64 quotient are listed, not hidden), cell_area_is_table (the metadata call returns exactly the tabulated row), cells_tile_the_sphere - kernel-checked on the tables regenerated from cell_info.rs. "
      "[full, planar half of the polygon clause, exact arithmetic on the runtime constants of Gen/Runtime.lean] planar_area_equal (the pentagon get_pentagon_vertices draws for ANY anchor has the signed area of the seed pentagon: half-turn, mirror with reversed order and translations preserve the trapezoid sum), planar_area_equal_positions (all 4^n cells of a quintant at depth n), planar_area_scale (s^2), pentagon_area_is_triangle_area (the seed's area is positive and equals half det BASIS to 2^-50, so 4^n pentagons have the area of the quintant triangle). "
      "[partial] The polygon clause (every cell's boundary encloses 4*pi/N) rests on the projection being area-preserving (C16, analytic core not proved): it is model-validated (bit-exact correspondence of cell_to_boundary) and searched with an independent area integrator on the authalic sphere: "
      "all cells r<=2 (quick) / r<=4 (thorough), cells at poles / antimeridian / dodecahedron vertex and seam latitudes at every resolution, random cells to r=29; worst relative error is reported (4e-5 after the repair of defect F14, which this search found).",
      "Lean 4 proof (decide +kernel over the regenerated metadata tables, exact rational arithmetic) + bit-exact correspondence + independent spherical-area search",
      "DESIGN.md section 6 C04",
      "Polygon areas are measured by /verif/vlib/geo.py (WGS84 closed-form authalic latitude, l'Huilier / tangent-plane integrator), trusted as the oracle of the search.")
claim("C17",
      "[full, exact arithmetic] For every depth n <= 30, every one of the six orientations and all 4^n positions (induction over digit lists; no bound): the two digit-shift passes are mutually inverse bijections for any pattern that is a permutation of 0..7 (checked by decide on the regenerated PATTERN / PATTERN_FLIPPED), "
      "locate_anchor (over ANY linearly ordered field, hence over R and Q): every point strictly inside the lattice triangle of the anchor of position s is located back to s by ij_to_s - the SAME generic Lean definition that runs at Float in the correspondence; positions_injective / triangles_disjoint; "
      "positions_onto_lattice_triangles (every off-lattice point of the quintant triangle lies in the triangle of exactly one position: no position unused, no cell reachable twice); centres_in_quintant_triangle; s_to_anchor / ij_to_s total (no overflow) and ij_to_s < 4^n at any scalar type; "
      "orientation flag sets of the two Rust functions agree and never set flipIJ and invertJ together (decide on the regenerated sets). "
      "pentagon layer (centre_in_anchor_triangle, centre_located, pentagons_distinct, centres_in_quintant), in EXACT rational arithmetic on the f64 constants the running library computes at start-up (Gen/Runtime.lean, regenerated from the running code and cross-checked bit-for-bit between library and model on every run): the centre of the pentagon get_pentagon_vertices draws for position s (generic twin pentagonLocalG, tied to the Float model by pentagonLocal_tie) lies more than 0.14 lattice units inside the anchor's triangle for every depth, orientation and position (8 kernel-evaluated local cases + an explicit bound 2^-50 on the defect of BASIS_INVERSE*BASIS), hence is located back to s, different positions have different pentagons and every centre lies in the quintant triangle. "
      "[numeric residue, searched] that the f64 evaluation of the centre and of ij_to_s stays inside that 0.14 margin (rounding about 1e-7 lattice units at depth 29): the full round trip s -> anchor -> pentagon -> centre -> ij_to_s = s is run on the implementation, exhaustive for n <= 5 (quick) / n <= 8 (thorough) x 6 orientations, patterned positions to n = 29.",
      "Lean 4 proof (induction over quaternary digit lists; 16-case subdivision lemma over an ordered field; exact rational evaluation of the runtime pentagon constants; decide on regenerated tables) + bit-exact correspondence + exhaustive small-depth round trips",
      "DESIGN.md section 6 C17")
claim("C18",
      "[full] segment_quintant_bijection (all 12 faces x 5, both directions, same orientation; every layout is one of the four named fans; ORIGIN_ORDER is a permutation) by decide over the regenerated tables through integer mirrors tied to the model by rfl; "
      "haversine_is_chord over R for ALL angles (the selection measure equals (1 - <p,a>)/2, so minimising it minimises great-circle distance; haversine_orders_by_distance via arccos), nearest_is_argmin (the fold returns the first minimiser over any linear order; the Float model is that fold by rfl); "
      "frame_regular: from the exact dyadic values of the 12 regenerated quaternions: unit norm to 2^-48, face 0 = (0,0,1), antipode table, every other pair |5 d^2 - 1| < 2^-40 (63.435 deg or its supplement), exactly five neighbours each; LONGITUDE_OFFSET = 93 exactly. "
      "[partial] float rounding inside haversine and ties on seams are outside the theorems: nearest-face selection is searched against a direct 3-D dot-product argmax on uniform points and points within 1e-12..1e-7 of the seams; base-cell centres, pole lookups and the frame read from the running library are checked on every run.",
      "Lean 4 proof (decide +kernel over regenerated tables and exact dyadic constants; real-analysis identity in Mathlib) + bit-exact correspondence + seam-focused search",
      "DESIGN.md section 6 C18")
claim("C01",
      "[full, skeleton] For ALL float inputs (every libm result treated as an arbitrary value): lookup_resolution (an Ok result is a canonical id of exactly the requested resolution; world cell for -1), lookup_out_of_range (resolutions outside -1..29 are rejected), "
      "lookup_outcomes (the only possible outcomes are Ok, err crsVertex, or the float-dependent notCCW panic: index panics, the empty-fallback case and the shift/sub overflow guards of ij_to_s / s_to_anchor are ruled out for all inputs), "
      "lookup_hit_sound (a direct or probe hit returns a cell whose own planar containment test is strictly positive for the point; the fallback returns the first maximum of the recorded distances), lookup_branches. "
      "[partial: model-validated and searched, NOT proved] that the returned cell contains the point for every point of the sphere (adequacy of the 25-probe heuristic - in fact false in the polar caps: known finding F11, recorded, not repaired), periodicity in longitude, pole handling, the 1e-12 edge band. "
      "Search: spherical winding test against the returned cell's reported boundary, independent of contains_point, on uniform / polar / seam / vertex / edge-hugging / antimeridian / wrapped-longitude points x resolutions 0..29; bit-exact correspondence incl. the branch that produced the answer (hook). "
      "A miss is matched to F11 only if it comes from the fallback branch, the frozen model returns the same id through the same branch and the regenerated tables equal the reference tables; any other miss is a violation.",
      "Lean 4 proof of the integer/list skeleton of the lookup (all float sub-results universally quantified) + bit-exact correspondence with branch hook + independent containment search",
      "DESIGN.md section 6 C01; section 7 F11")
claim("C02",
      "[full, exact arithmetic] cell_roundtrip_exact: for every valid cell of resolution >= 2 and every orientation, over any ordered field: id -> decode -> anchor -> ANY point of the anchor's lattice triangle -> ij_to_s -> encode is the identity (composition of C05 and C17); distinct cells of a quintant have disjoint lattice triangles; "
      "segment<->quintant conversions are mutually inverse; lookup_direct_hit_is_roundtrip / roundtrip_of_direct_hit on the Float model (branch 0 <=> the estimate of the point itself contains it). "
      "centre_roundtrip_exact: the exact rational centre of the pentagon drawn from the library's start-up constants (Gen/Runtime.lean) lies > 0.14 lattice units inside the cell's lattice triangle, so id -> pentagon centre -> ij_to_s -> encode returns the id in exact arithmetic for every valid cell of resolution >= 2. "
      "[residue, stated as unproved defs] that the f64 evaluation of that centre and the projection round trip stay inside the margin: measured on every run (C17: margin 0.1487; C15: 8e-15 rad). "
      "Search: cell -> reported centre -> lookup for every cell r<=3 (quick) / r<=6 (thorough) and every face x quintant x patterned positions to r=29, plus interior points on centre-corner chords; bit-exact correspondence. "
      "Misses that come from the lookup's fallback branch at high latitude are the recorded finding F11 (same predicate as C01).",
      "Lean 4 proof (composition of the codec and curve bijection theorems over an ordered field) + bit-exact correspondence + exhaustive low-resolution round trips",
      "DESIGN.md section 6 C02")
claim("C03",
      "[full, combinatorial half] lattice_partition / cells_partition_quintant: for every depth and every orientation each off-lattice point of the quintant triangle lies in the lattice triangle of exactly one curve position (no triangle claimed twice, none left out); "
      "[full, abstract and conditional] disjoint_of_cover_and_equal_area: in a finite measure space, measurable sets of equal measure mu(X)/N that cover X overlap only in null sets - reducing 'no overlap' on the sphere to 'every point is in some cell' (C01) and 'equal area' (C04/C16). "
      "[not proved, kept as a def] the seams between quintants, across the 30 dodecahedron edges and at the 20 vertices (kind-III geometry). "
      "Search: for points stepped 0.05..1.5 cell sizes away from edges and vertices of base cells and quintants, and uniform points, the candidate cells from a three-ring neighbourhood must contain the point exactly once, by the library's planar test and by an independent winding test on the reported boundaries; bit-exact correspondence of contains / lonlat_to_cell.",
      "Lean 4 proof (tiling of the quintant by anchor triangles; measure-theoretic reduction in Mathlib) + bit-exact correspondence + neighbourhood search at seams and vertices",
      "DESIGN.md section 6 C03")
claim("C11",
      "[full, list skeleton for ALL float values] ring_length (exactly vertices*n points, 3 for quintant cells else 5, +1 when closed; default n; n = 0 behaves like 1), ring_closed (first = last; the closed ring is the open ring with its last point put in front), ring_world (every alias of the world cell gives the empty ring), ring_nonempty; "
      "corners_independent_of_n_partial (corner i sits at index i*n of the split list or its mirror image); unwrap_window / unwrap_fuel over any ordered field (result within +-180 of the centre, differs by a multiple of 360, fuel bound) with the twin tied to the Float model by rfl. "
      "[full, planar, exact arithmetic on the runtime constants] planar_ring_ccw_convex_centre_inside: the pentagon of EVERY anchor, scaled by any s > 0 and transformed by any matrix of positive determinant (the quintant rotation), has positive trapezoid sum (PentagonShape::new keeps its order), is strictly convex, and get_center lies strictly inside all five edges, with explicit margins; same for the quintant triangle; getPentagonVertices_tie ties the exact pentagon to the Float model (same expression tree). "
      "[not proved] latitude range, that the projection keeps orientation and centre-inside on the sphere, the 180-degree window: searched on the implementation (independent spherical area sign and winding test) for antimeridian and polar cells at every resolution, random cells, closed/open, n in {1,2,3,5,7,16,64,default}; corner identity across n. "
      "The search found defect F14 (polar rings degenerate at high resolution), repaired by fix e88aa12.",
      "Lean 4 proof of the list/outcome skeleton of cell_to_boundary (float values universally quantified) + bit-exact correspondence + independent ring checks",
      "DESIGN.md section 6 C11")
claim("C12",
      "[full, lattice level] child_digits_extend_parent (all depths, positions, both patterns: the child's shifted digit string is the parent's with its last digit rewritten through the generated pattern plus one new digit), child_offset_close (O_child - 2 O_parent lies in an explicit set of 15 / 13 integer vectors, bound 2 resp. 3 per coordinate, for all six orientations), "
      "descendant_offset_bounded (|O_desc - 2^k O_anc| <= B (2^k - 1): bounded reach at every depth), descendant_triangle_reach; child_triangle_not_contained (lattice containment is false - as the property says, pentagons cannot nest). "
      "[not proved] the planar pentagon overlap, coverage > 1/2 and centre distance < 0.8 sqrt(area), and the transfer to the sphere: searched on the implementation for every parent r<=1 (quick) / r<=3 (thorough) and random parents to r=28 (sampled coverage in a gnomonic chart, min 0.567 observed; max centre distance 0.705).",
      "Lean 4 proof (digit-shift structure of parent and child positions; decide over the finite configuration table) + bit-exact correspondence + geometric search",
      "DESIGN.md section 6 C12")
claim("C15",
      "[partial, small] bary_roundtrip over any field (barycentric maps are mutually inverse when the triangle is non-degenerate; coordinates sum to 1), reflected_apex_point_reflection / reflected_triangle_is_mirror / reflect_midpoint_is_edge_midpoint (the reflected chart is the mirror image of the base triangle in the face edge), "
      "triangle_index_total (index in 0..9 for EVERY Float incl. NaN / infinities), inverse_snaps_corners (the three early returns fire exactly above 1 - 1e-14); generic twins tied to the Float model by rfl. "
      "[full over R, radial half of the round trip] safe_acos_switch_value (the regenerated small-angle switch of safe_acos is the f64 nearest 1e-3), safe_acos_is_two_arcsin (the real twin of safe_acos, rfl-tied to the Float model, equals acos(1-2x^2) = 2 asin x to 1e-15 on [0,1], across the switch), radial_roundtrip (the inverse's t = safe_acos(h k)/safe_acos(k) recovers the arc length AV that the forward's h = sin(AV/2)/sin(AP/2) encodes: exactly with 2 asin, within 5e-16 rad with the two-branch safe_acos, for all 0 <= AV <= AP <= pi), radial_roundtrip_vectors (vector_difference = sin of the half angle, slerp stays on the great circle at angle t*gamma, unprojecting the forward image of a point of the arc returns it). "
      "[not proved - the largest unproved area] the ANGULAR half (which point P of the edge BC the area ratio / atan2 formula designates), float rounding, inside/outside-the-pentagon clauses: kept as projection_roundtrip_statement (a def, assumed nowhere). "
      "Search: sphere points (uniform, on the great circle between neighbouring centres at the edge +-1e-13..1e-9, at vertices) projected relative to nearest and second-nearest face and back (worst 8e-15 rad), planar points incl. the ten internal seams / centre / edge x 12 faces; bit-exact correspondence of forward and inverse.",
      "Lean 4 proof of the algebraic skeleton (barycentric and reflection algebra over a field; totality of the triangle index) + bit-exact correspondence + round-trip search at seams",
      "DESIGN.md section 6 C15")
claim("C16",
      "[partial, small] affine_area (planar area of a probe = determinant x area of its barycentric image), cap_fraction, planar_wedge_area, equal_area_jacobian_polar (the Jacobian identity in polar form, taking the sweep formula W' = 1 - cos T as an explicit hypothesis), sphere_area_per_triangle (4 pi/120 enclosed to 19 digits), distance_to_edge_value. "
      "[not proved] the equal-area theorem of the vertex-oriented great-circle mapping itself: equal_area_jacobian_statement is a def, assumed nowhere. "
      "Search: probe triangles of size 1e-5..1e-3 in every sector of every face, on both sides of the ten internal seams and of the face edge incl. the reflected margin, at the face centre and the pentagon vertices; the unprojected outline (12-60 points per edge) must have area = planar area x 4 pi/(12 F) within 1e-4 (worst 2e-5); bit-exact correspondence of inverse.",
      "Lean 4 proof of the algebraic reductions (field / real identities) + bit-exact correspondence + local area-distortion search",
      "DESIGN.md section 6 C16")
claim("C19",
      "[full over R, for ANY coefficients] authalic_odd, authalic_fixes_equator, authalic_fixes_poles; clenshaw_is_fourier (what the recurrence actually computes: phi + sum c_k sin 2k phi plus a c6 sin 8 phi defect term - the intended identity is refuted by a kernel-checked counterexample; the defect is < 2^-54 with the generated coefficients), "
      "authalic_deriv_lower_bound (> 0.995) and authalic_strict_mono for both regenerated coefficient tables (exact rationals), lon_roundtrip / colat_roundtrip over any field, exact facts about the f64 constants (PI_OVER_180 x DEG_PER_RAD rounds to 1.0; offset exactly 93); the real functions are the generic twins of the Float model (rfl). "
      "authalic_roundtrip [full over R]: for EVERY real latitude |g(f phi) - phi| <= 1.35e-13 and |f(g beta) - beta| <= 1.35e-13 (<= the property's 1e-12) for the two order-6 series with the exact rational values of the regenerated coefficient tables, Clenshaw defect included (addition formulas with explicit remainders reduce the composition to a polynomial in e^{2i phi} with 49 kernel-computed rational coefficients plus an explicit rational remainder bound). "
      "[not proved] the f64 rounding of the recurrence, and agreement with the closed-form WGS84 authalic latitude to 1e-11 (needs an enclosure of log/asin of the ellipsoid constants; out of reach offline): searched on a dense grid incl. endpoints and pi/2 - 10^-k (worst 2.2e-16 resp. 1.7e-15 rad), monotonicity on adjacent grid points, lon/lat <-> sphere incl. poles and lon in [-540, 540] (worst 2.5e-15 rad); bit-exact correspondence.",
      "Lean 4 proof (real-analysis identities and derivative bound in Mathlib on exact rational coefficients) + bit-exact correspondence + dense-grid search with an independent closed form",
      "DESIGN.md section 6 C19")
