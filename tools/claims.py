# claims table, exec'd by mkmanifest.py
claim("C05",
      "[full] Theorems for ALL inputs about the model of serialize/deserialize/get_resolution/u64_to_hex/hex_to_u64: encoder closed form = documented layout, "
      "decode.encode = id on every valid description, encode.decode = id on every id in the layout, layout = image of the encoder, resolution read-back, injectivity, "
      "per-face quintant rotation bijective (on the tables regenerated from origin.rs), every successful decode re-encodes canonically, decoder and hex parser total; "
      "hex round trip for all n < 2^64, format 1-16 lower-case digits without leading zero, empty/oversized strings rejected. "
      "The model is tied to the code by exhaustive correspondence for all cells r<=5 (quick) / r<=8 (thorough) plus random, malformed and string streams; "
      "an independent layout oracle judges the implementation's outputs and supplies replays.",
      "Lean 4 proof (omega over literal powers of two, 28-way resolution split, list induction for hex) + generated tables + differential model/impl correspondence",
      "DESIGN.md section 6 C05")
