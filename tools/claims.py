# claims table, exec'd by mkmanifest.py
claim("C05",
      "[full] Theorems for ALL inputs about the model of serialize/deserialize/get_resolution/u64_to_hex/hex_to_u64: encoder closed form = documented layout, "
      "decode.encode = id on every valid description, encode.decode = id on every id in the layout, layout = image of the encoder, resolution read-back, injectivity, "
      "per-face quintant rotation bijective (on the tables regenerated from origin.rs), every successful decode re-encodes canonically, decoder and hex parser total; "
      "hex round trip for all n < 2^64, format 1-16 lower-case digits without leading zero, empty/oversized strings rejected. "
      "The model is tied to the code by exhaustive correspondence for all cells r<=5 (quick) / r<=8 (thorough) plus random, malformed and string streams; "
      "an independent layout oracle judges the implementation's outputs and supplies replays.",
      "Lean 4 proof (omega over literal powers of two, 28-way resolution split, list induction for hex) + generated tables + differential model/impl correspondence",
      "DESIGN.md section 6 C05")
claim("C06",
      "[full] tables_unchanged: every table and constant regenerated from the current Rust source by the translator (PATTERN/PATTERN_FLIPPED, flips and KJ tables, "
      "orientation sets, quintant layouts, QUINTANT_FIRST, ORIGIN_ORDER, QUATERNIONS, LONGITUDE_OFFSET, all of constants.rs, authalic coefficients, thresholds, probe count/scale, "
      "memo layout, cell-area table ...; 90 items, floats by IEEE bit pattern and exact dyadic value) equals the frozen tables of the reference release - a kernel-checked equality per item, "
      "re-checked on every run against what the code says now. The model bodies are frozen against v0.6.2(+fix commits) and the bit-exact correspondence on the golden requests is the comparison "
      "of function bodies with the reference semantics (translation validation). [search] replay of a frozen golden table generated once from the pinned release: 13.6k ids -> centre+corners "
      "(every face x quintant x resolution) and 51k (lon,lat,res) -> id rows; ids must be equal wherever the reference contained the point and was stable under 1e-9 deg perturbation, "
      "centres/corners within 1e-9 deg.",
      "Lean 4 proof of table identity (decide +kernel per generated item) + frozen golden-table replay + bit-exact model/impl correspondence",
      "DESIGN.md section 6 C06",
      "The golden table was produced by a scratch crate linked against a worktree of the pinned commit d731376 (deleted afterwards).")
claim("C20",
      "[full] Theorems for ALL cells and all 28 curve levels (no case split on the resolution) about the spec encoding enc (shown equal to the model's serialize by C05/C07 lemmas) and the model's "
      "get_stride / is_first_child: subtree_interval (for res >= 1: q is p or a descendant of p iff lo p <= id q <= hi p, with lo/hi attained by subtree cells), ancestors_monotone, "
      "descendants_ordered / subtrees_ordered, siblings_adjacent (children are c0 + j*stride with the model's stride, is_first_child true exactly for j = 0, no foreign same-resolution id in between), "
      "base_cells_interleave (the stated exception, for every face). Two tempting stronger statements are kept as _statement defs with kernel-checked refutations. "
      "Tie to the code: correspondence of cell_to_parent / cell_to_children / is_first_child / get_stride on pairs straddling parent boundaries at every level; integer-comparison oracle on the implementation's output.",
      "Lean 4 proof (omega/grind over closed forms of the id layout; induction over digit lists) + differential model/impl correspondence",
      "DESIGN.md section 6 C20")
claim("C13",
      "[full, for the model] The projection cache is modelled as an explicit state machine (A5.Memo: 30 + 240 slots, slot functions built from the constants regenerated from dodecahedron.rs, "
      "nested squashed-triangle fetch, CRS counter), generic in the value functions. Theorems for ALL histories and ALL interleavings: slot_sound (equal slot => equal value; all slots in range; every slot reachable), "
      "memo_refines_pure (invariant 'every filled slot holds the pure value of its keys' holds initially and is preserved; every call returns the stateless result after any history, in any fill order), "
      "threads_independent (any interleaving of per-thread call sequences: each step returns the pure result and touches only its own component), crs_quiet (<= 720 < 10000 CRS lookups, so the stderr warning is unreachable; "
      "its hypothesis that all 240 triangles compute is checked by evaluation on every run), ok_stays_ok/err_stays_err. The release's history-dependent inverse(origin 12..23) is kept as a kernel-checked counterexample against the frozen v0.6.2 model (repaired by fix d95ab4f). "
      "[runtime, partial] Tie to the code = this check: thread histories executed in fresh threads of the real library (random and fill-all-270-slots orders, warm replays) must give the model's results bit-for-bit AND the slot-fill bitmap the state machine predicts (hook verif_memo_fill); "
      "public API calls fresh vs after prefixes vs under 8-16 concurrent threads must be bit-identical. Data-race freedom of the Rust runtime primitives is assumed, not proved.",
      "Lean 4 proof (invariant by induction over histories and interleavings of a memo state machine) + bitmap/bit-exact differential runs against the real library in fresh and concurrent threads",
      "DESIGN.md section 6 C13",
      "Lean cannot observe Rust's memory model: thread_local!/OnceLock/LazyLock/lazy_static and the &'static mut from get_thread_local are trusted; the concurrent runs exercise them.")
