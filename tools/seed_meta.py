#!/usr/bin/env python3
"""Re-run checks against a filed seed (isolated, via mutrun) and/or recompute its verdict fields.

usage: seed_meta.py <name> [<check id> ...]      with ids: run them now and record the lines (replacing older lines of the same id)
Fields written to seeded/<name>/meta.json: checks_run_against_it, caught_by (concrete failing input), caught_as_broken_tie
(VIOLATION ... no-failing-input-found), silent."""
import json, os, re, subprocess, sys

tier = []
if "--tier" in sys.argv:
    i = sys.argv.index("--tier")
    tier = sys.argv[i:i + 2]
    del sys.argv[i:i + 2]
name, ids = sys.argv[1], sys.argv[2:]
d = f"/verif/seeded/{name}"
meta = json.load(open(f"{d}/meta.json"))
lines = meta.get("checks_run_against_it", [])
if ids:
    out = subprocess.run([sys.executable, "/verif/tools/mutrun.py", f"{d}/patch.diff"] + ids + tier, capture_output=True, text=True).stdout
    new = [l + (" [tier thorough]" if tier else "") for l in out.split("\n") if re.match(r"^C\d\d exit=", l)]
    got = {l[:3] for l in new}
    lines = [l for l in lines if l[:3] not in got or (bool(tier) != ("[tier thorough]" in l))] + new
    print(out[:3000])
meta["checks_run_against_it"] = lines
caught, tie, silent = [], [], []
for l in lines:
    pid = l[:3]
    if " exit=0 " in l:
        silent.append(pid)
    elif "no-failing-input-found" in l:
        tie.append(pid)
    elif " exit=1 " in l:
        caught.append(pid)
meta["caught_by"] = sorted(set(caught))
meta["caught_as_broken_tie"] = sorted(set(tie))
meta["silent"] = sorted(set(silent))
json.dump(meta, open(f"{d}/meta.json", "w"), indent=1)
print(name, "caught_by", meta["caught_by"], "tie", meta["caught_as_broken_tie"], "silent", meta["silent"])
