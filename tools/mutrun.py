#!/usr/bin/env python3
"""Run checks against a patched copy of the repository WITHOUT touching /repo or /verif's build state.

usage: mutrun.py <patch.diff> <ID> [<ID> ...] [--tier quick] [--keep]

Makes /tmp/vm-<pid>/verif (a copy of /verif incl. build output) and /tmp/vm-<pid>/repo (a worktree of /repo HEAD with
the patch applied), points the copy's harness at the patched tree, runs the checks there and prints one line per check:
  <ID> exit=<code> <VIOLATION line or 'no alarm'>
Everything under /tmp/vm-<pid> is removed afterwards (unless --keep)."""
import os, re, shutil, subprocess, sys, time


def sh(cmd, **kw):
    return subprocess.run(cmd, shell=isinstance(cmd, str), stdout=subprocess.PIPE, stderr=subprocess.STDOUT, text=True, **kw)


def main():
    args = [a for a in sys.argv[1:] if not a.startswith("--")]
    tier = "quick"
    if "--tier" in sys.argv:
        tier = sys.argv[sys.argv.index("--tier") + 1]
        args = [a for a in args if a != tier]
    keep = "--keep" in sys.argv
    patch, ids = os.path.abspath(args[0]), args[1:]
    root = f"/tmp/vm-{os.getpid()}"
    os.makedirs(root)
    vr, rr = os.path.join(root, "verif"), os.path.join(root, "repo")
    try:
        sh(["rsync", "-a", "--exclude", ".git", "--exclude", "replays", "--exclude", "evidence", "--exclude", "seeded", "/verif/", vr + "/"])
        r = sh(["git", "-C", "/repo", "worktree", "add", "--detach", rr, "HEAD"])
        r = sh(["git", "-C", rr, "apply", patch])
        if r.returncode != 0:
            print("PATCH DOES NOT APPLY:", r.stdout)
            return 2
        ct = os.path.join(vr, "harness", "Cargo.toml")
        s = open(ct).read().replace('path = "/repo"', f'path = "{rr}"')
        open(ct, "w").write(s)
        # cargo's fingerprints refer to the old path: force a rebuild of the dependency
        shutil.rmtree(os.path.join(vr, "harness", "target"), ignore_errors=True)
        env = dict(os.environ, VERIF_REPO=rr, CARGO_NET_OFFLINE="true")
        results = []
        for pid in ids:
            t0 = time.time()
            p = sh([os.path.join(vr, "check"), pid, "--tier", tier], cwd=vr, env=env, timeout=3600)
            vio = [l for l in p.stdout.split("\n") if l.startswith("VIOLATION") or l.startswith("KNOWN-FINDING")]
            summary = [l for l in p.stdout.split("\n") if "done in" in l]
            line = f"{pid} exit={p.returncode} {(vio[0] if vio else 'no alarm')}  [{time.time() - t0:.0f}s] {summary[0] if summary else p.stdout[-300:]}"
            print(line, flush=True)
            for v in vio:
                m = re.search(r"replay=(\S+)", v)
                if m and os.path.exists(m.group(1)):
                    import json
                    d = json.load(open(m.group(1)))
                    if d.get("violations"):
                        v0 = d["violations"][0]
                        print("    first violation:", str(v0.get("what"))[:200], "|", str(v0.get("request"))[:200], flush=True)
                    elif d.get("broken") or d.get("correspondence_disagreements"):
                        b = d.get("broken") or []
                        print("    broken:", [(x["kind"], x["name"]) for x in b][:3], "disagreements:", d.get("n_disagreements"), flush=True)
                        for c in (d.get("correspondence_disagreements") or [])[:2]:
                            print("      ", str(c)[:300], flush=True)
            results.append((pid, p.returncode))
        return 0
    finally:
        if not keep:
            sh(["git", "-C", "/repo", "worktree", "remove", "--force", rr])
            shutil.rmtree(root, ignore_errors=True)
            sh(["git", "-C", "/repo", "worktree", "prune"])


if __name__ == "__main__":
    sys.exit(main())
