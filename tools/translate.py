#!/usr/bin/env python3
"""Translator: regenerate A5/Gen/Tables.lean from /repo/src on every run.

Parses the Rust sources with a small comment-stripping tokenizer plus item-level
patterns and emits every table / constant the Lean model uses.  Floats are
emitted as IEEE-754 bit patterns plus the exact dyadic rational they denote.
Fails loudly (exit 2, message on stderr) if an item cannot be found or parsed:
that is a broken tie, handled by the check driver.

usage: translate.py [--repo /repo] [--out FILE] [--module A5.Gen.Tables] [--namespace A5.Gen]
"""
import re, sys, struct, hashlib, argparse, os, subprocess
from fractions import Fraction


class TranslateError(Exception):
    pass


def strip_comments(src: str) -> str:
    src = re.sub(r"/\*.*?\*/", " ", src, flags=re.S)
    src = re.sub(r"//[^\n]*", " ", src)
    return src


def read(repo, rel):
    p = os.path.join(repo, rel)
    try:
        raw = open(p, "rb").read()
    except OSError as e:
        raise TranslateError(f"cannot read {rel}: {e}")
    return raw, strip_comments(raw.decode("utf-8"))


def need(m, what):
    if not m:
        raise TranslateError(f"cannot find/parse: {what}")
    return m


def f64_bits(x: float) -> int:
    return struct.unpack("<Q", struct.pack("<d", x))[0]


def parse_float_lit(tok: str) -> float:
    t = tok.strip().replace("_", "")
    t = re.sub(r"(f64|_f64)$", "", t)
    return float(t)


CONST_EXPR_ENV = {
    "std::f64::consts::PI": 3.141592653589793,
    "std::f64::consts::TAU": 6.283185307179586,
    "std::f64::consts::FRAC_PI_2": 1.5707963267948966,
    "PI": 3.141592653589793,
}


def eval_const_expr(expr: str) -> float:
    """Evaluate the tiny constant-expression language used in constants.rs
    (literal, or `std::f64::consts::X / lit`)."""
    e = expr.strip()
    m = re.fullmatch(r"Radians::new_unchecked\((.*)\)", e, flags=re.S)
    if m:
        e = m.group(1).strip()
    m = re.fullmatch(r"Degrees::new_unchecked\((.*)\)", e, flags=re.S)
    if m:
        e = m.group(1).strip()
    m = re.fullmatch(r"(std::f64::consts::\w+)\s*/\s*([0-9.eE+-]+)", e)
    if m:
        return CONST_EXPR_ENV[m.group(1)] / parse_float_lit(m.group(2))
    if e in CONST_EXPR_ENV:
        return CONST_EXPR_ENV[e]
    try:
        return parse_float_lit(e)
    except ValueError:
        raise TranslateError(f"unsupported constant expression: {expr!r}")


def fconst(name, x):
    """Lean text for a float constant: bits + exact rational num * 2^exp."""
    bits = f64_bits(x)
    fr = Fraction(x)
    num, den = fr.numerator, fr.denominator
    exp = -(den.bit_length() - 1)
    assert den == 1 << (-exp)
    return f"def {name} : FConst := ⟨0x{bits:016x}, ({num}), ({exp})⟩"


def fconst_anon(x):
    bits = f64_bits(x)
    fr = Fraction(x)
    num, den = fr.numerator, fr.denominator
    exp = -(den.bit_length() - 1)
    return f"⟨0x{bits:016x}, ({num}), ({exp})⟩"


ORI = {"UV": 0, "VU": 1, "UW": 2, "WU": 3, "VW": 4, "WV": 5}


def parse_ori_list(body, what):
    names = re.findall(r"Orientation::(\w+)", body)
    if not names or any(n not in ORI for n in names):
        raise TranslateError(f"bad orientation list in {what}")
    return [ORI[n] for n in names]


def int_const(src, name, what):
    m = need(re.search(rf"const\s+{name}\s*:\s*\w+\s*=\s*([0-9a-fA-Fx_]+)\s*;", src), what)
    return int(m.group(1).replace("_", ""), 0)


def translate(repo):
    out = []
    hashes = []
    files = {}

    def load(rel):
        raw, txt = read(repo, rel)
        files[rel] = txt
        hashes.append((rel, hashlib.sha256(raw).hexdigest()))
        return txt

    ser = load("src/core/serialization.rs")
    org = load("src/core/origin.rs")
    hil = load("src/core/hilbert.rs")
    con = load("src/core/constants.rs")
    qua = load("src/core/dodecahedron_quaternions.rs")
    ctr = load("src/core/coordinate_transforms.rs")
    cin = load("src/core/cell_info.rs")
    aut = load("src/projections/authalic.rs")
    pen = load("src/core/pentagon.rs")
    cel = load("src/core/cell.rs")
    pol = load("src/projections/polyhedral.rs")
    vec = load("src/utils/vector.rs")
    crs = load("src/projections/crs.rs")
    spp = load("src/geometry/spherical_polygon.rs")
    dod = load("src/projections/dodecahedron.rs")
    til = load("src/core/tiling.rs")
    cmp_ = load("src/core/compact.rs")

    # ---------------- serialization.rs
    out.append("-- serialization.rs")
    out.append(f"def FIRST_HILBERT_RESOLUTION : Int := {int_const(ser,'FIRST_HILBERT_RESOLUTION','FIRST_HILBERT_RESOLUTION')}")
    out.append(f"def MAX_RESOLUTION : Int := {int_const(ser,'MAX_RESOLUTION','MAX_RESOLUTION')}")
    out.append(f"def HILBERT_START_BIT : Nat := {int_const(ser,'HILBERT_START_BIT','HILBERT_START_BIT')}")
    out.append(f"def REMOVAL_MASK : Nat := 0x{int_const(ser,'REMOVAL_MASK','REMOVAL_MASK'):x}")
    out.append(f"def ORIGIN_SEGMENT_MASK : Nat := 0x{int_const(ser,'ORIGIN_SEGMENT_MASK','ORIGIN_SEGMENT_MASK'):x}")
    out.append(f"def WORLD_CELL : Nat := {int_const(ser,'WORLD_CELL','WORLD_CELL')}")
    # sibling counts used by is_first_child: `if resolution == 0 { 12 } else { 5 }`
    m = need(re.search(r"let\s+child_count\s*=\s*if\s+resolution\s*==\s*0\s*\{\s*(\d+)\s*\}\s*else\s*\{\s*(\d+)\s*\}", ser), "is_first_child child_count")
    out.append(f"def FIRST_CHILD_COUNT_RES0 : Nat := {m.group(1)}")
    out.append(f"def FIRST_CHILD_COUNT_RES1 : Nat := {m.group(2)}")
    m = need(re.search(r"else\s+if\s+resolution_diff\s*>\s*(\d+)\s*\{", ser), "cell_to_children diff guard")
    out.append(f"def MAX_CHILD_DIFF : Int := {m.group(1)}")
    m = need(re.search(r"new_origin_ids\s*=\s*\(0\.\.(\d+)\)\.collect\(\)", ser), "world children origin range")
    out.append(f"def NUM_ORIGINS_WORLD : Nat := {m.group(1)}")
    m = need(re.search(r"new_segments\s*=\s*vec!\[([0-9,\s]+)\]", ser), "new_segments list")
    out.append(f"def NEW_SEGMENTS : List Nat := [{', '.join(x.strip() for x in m.group(1).split(',') if x.strip())}]")

    # ---------------- compact.rs
    out.append("-- compact.rs")
    m = need(re.search(r"resolution\s*>=\s*FIRST_HILBERT_RESOLUTION\s*\{\s*(\d+).*?\}\s*else\s+if\s+resolution\s*==\s*0\s*\{\s*(\d+).*?\}\s*else\s*\{\s*(\d+)\s*\}", cmp_, flags=re.S), "compact expected_children")
    out.append(f"def SIBLINGS_HILBERT : Nat := {m.group(1)}")
    out.append(f"def SIBLINGS_RES0 : Nat := {m.group(2)}")
    out.append(f"def SIBLINGS_RES1 : Nat := {m.group(3)}")

    # ---------------- origin.rs
    out.append("-- origin.rs   (orientation code: UV=0 VU=1 UW=2 WU=3 VW=4 WV=5)")
    layouts = {}
    for name in ["CLOCKWISE_FAN", "CLOCKWISE_STEP", "COUNTER_STEP", "COUNTER_JUMP"]:
        m = need(re.search(rf"pub\s+const\s+{name}\s*:\s*\[Orientation;\s*5\]\s*=\s*\[(.*?)\];", org, flags=re.S), name)
        lst = parse_ori_list(m.group(1), name)
        if len(lst) != 5:
            raise TranslateError(f"{name} must have 5 entries")
        layouts[name] = lst
        out.append(f"def {name} : List Nat := {lst}")
    m = need(re.search(r"const\s+QUINTANT_ORIENTATIONS_ARRAYS\s*:\s*\[\[Orientation;\s*5\];\s*12\]\s*=\s*\[(.*?)\];", org, flags=re.S), "QUINTANT_ORIENTATIONS_ARRAYS")
    names = [x.strip() for x in m.group(1).split(",") if x.strip()]
    if len(names) != 12 or any(n not in layouts for n in names):
        raise TranslateError("QUINTANT_ORIENTATIONS_ARRAYS entries")
    out.append("def QUINTANT_ORIENTATIONS_ARRAYS : List (List Nat) := [" + ", ".join(names) + "]")
    for name in ["QUINTANT_FIRST", "ORIGIN_ORDER"]:
        m = need(re.search(rf"const\s+{name}\s*:\s*\[usize;\s*12\]\s*=\s*\[([0-9,\s]+)\];", org), name)
        lst = [int(x) for x in m.group(1).split(",") if x.strip()]
        if len(lst) != 12:
            raise TranslateError(f"{name} must have 12 entries")
        out.append(f"def {name} : List Nat := {lst}")
    m = need(re.search(r"fn\s+is_layout_clockwise.*?\{(.*?)\}", org, flags=re.S), "is_layout_clockwise")
    cw = re.findall(r"layout\s*==\s*(\w+)\.as_slice\(\)", m.group(1))
    if not cw or any(n not in layouts for n in cw):
        raise TranslateError("is_layout_clockwise body")
    out.append("def CLOCKWISE_LAYOUTS : List (List Nat) := [" + ", ".join(cw) + "]")
    # quaternion index formulas in generate_origins
    need(re.search(r"QUATERNIONS\[0\]", org), "north pole quaternion index")
    need(re.search(r"QUATERNIONS\[i\s*\+\s*1\]", org), "first ring quaternion index i + 1")
    m = need(re.search(r"QUATERNIONS\[\(i\s*\+\s*(\d+)\)\s*%\s*(\d+)\s*\+\s*(\d+)\]", org), "second ring quaternion index")
    out.append(f"def RING2_QUAT_ADD : Nat := {m.group(1)}")
    out.append(f"def RING2_QUAT_MOD : Nat := {m.group(2)}")
    out.append(f"def RING2_QUAT_BASE : Nat := {m.group(3)}")
    m = need(re.search(r"QUATERNIONS\[(\d+)\],\s*\);\s*let\s+mut\s+reordered", org, flags=re.S), "south pole quaternion index")
    out.append(f"def SOUTH_QUAT_INDEX : Nat := {m.group(1)}")
    m = need(re.search(r"haversine\(point,\s*origin\.axis\)\s*>\s*([0-9.eE+-]+)", org), "is_nearest_origin threshold")
    out.append(fconst("IS_NEAREST_THRESHOLD", parse_float_lit(m.group(1))))

    # ---------------- hilbert.rs
    out.append("-- hilbert.rs")
    for name in ["PATTERN", "PATTERN_FLIPPED"]:
        m = need(re.search(rf"const\s+{name}\s*:\s*\[usize;\s*8\]\s*=\s*\[([0-9,\s]+)\];", hil), name)
        lst = [int(x) for x in m.group(1).split(",") if x.strip()]
        if len(lst) != 8:
            raise TranslateError(f"{name} must have 8 entries")
        out.append(f"def {name} : List Nat := {lst}")
    m = need(re.search(r"pub\s+const\s+YES\s*:\s*i8\s*=\s*(-?\d+)\s*;", hil), "YES")
    yes = int(m.group(1))
    m = need(re.search(r"pub\s+const\s+NO\s*:\s*i8\s*=\s*(-?\d+)\s*;", hil), "NO")
    no = int(m.group(1))
    out.append(f"def YES : Int := {yes}")
    out.append(f"def NO : Int := {no}")
    fl = {"YES": yes, "NO": no}
    m = need(re.search(r"pub\s+fn\s+quaternary_to_flips.*?match\s+n\s*\{(.*?)_\s*=>", hil, flags=re.S), "quaternary_to_flips")
    arms = re.findall(r"(\d)\s*=>\s*\[(\w+),\s*(\w+)\]", m.group(1))
    if [a[0] for a in arms] != ["0", "1", "2", "3"]:
        raise TranslateError("quaternary_to_flips arms")
    out.append("def QUATERNARY_TO_FLIPS : List (Int × Int) := [" + ", ".join(f"({fl[a]}, {fl[b]})" for _, a, b in arms) + "]")
    # KJ unit vectors
    kjv = {}
    for name in ["K_POS", "J_POS", "K_NEG", "J_NEG", "ZERO"]:
        m = need(re.search(rf"const\s+{name}\s*:\s*KJ\s*=\s*KJ\(crate::coordinate_systems::vec2::Vec2\s*\{{\s*x:\s*(-?[0-9.]+),\s*y:\s*(-?[0-9.]+)\s*\}}\)", hil), name)
        x, y = float(m.group(1)), float(m.group(2))
        if x != int(x) or y != int(y):
            raise TranslateError(f"{name} not integral")
        kjv[name] = (int(x), int(y))
    if kjv["ZERO"] != (0, 0):
        raise TranslateError("ZERO must be (0,0)")
    m = need(re.search(r"pub\s+fn\s+quaternary_to_kj.*?match\s+\(flip_x,\s*flip_y\)\s*\{(.*?)_\s*=>", hil, flags=re.S), "quaternary_to_kj flips match")
    arms = re.findall(r"\((\w+),\s*(\w+)\)\s*=>\s*\((\w+),\s*(\w+)\)", m.group(1))
    if len(arms) != 4:
        raise TranslateError("quaternary_to_kj (p,q) arms")
    rows = []
    for fx, fy, p, q in arms:
        rows.append(f"(({fl[fx]}, {fl[fy]}), ({kjv[p][0]}, {kjv[p][1]}), ({kjv[q][0]}, {kjv[q][1]}))")
    out.append("/-- rows: ((flip_x, flip_y), p, q) in KJ coordinates -/")
    out.append("def KJ_PQ_TABLE : List ((Int × Int) × (Int × Int) × (Int × Int)) := [" + ", ".join(rows) + "]")
    m = need(re.search(r"match\s+n\s*\{\s*0\s*=>\s*ZERO\s*,\s*1\s*=>\s*p\s*,\s*2\s*=>\s*KJ::new\(q\.x\(\)\s*\+\s*p\.x\(\),\s*q\.y\(\)\s*\+\s*p\.y\(\)\)\s*,\s*3\s*=>\s*KJ::new\(q\.x\(\)\s*\+\s*2\.0\s*\*\s*p\.x\(\),\s*q\.y\(\)\s*\+\s*2\.0\s*\*\s*p\.y\(\)\)\s*,", hil), "quaternary_to_kj digit formulas (0, p, q+p, q+2p)")
    out.append("/-- digit n ↦ (a, b) with offset = a·q + b·p -/")
    out.append("def KJ_DIGIT_COEFF : List (Int × Int) := [(0, 0), (0, 1), (1, 1), (1, 2)]")
    m = need(re.search(r"const\s+FLIP_SHIFT\s*:\s*IJ\s*=\s*IJ\(crate::coordinate_systems::vec2::Vec2\s*\{\s*x:\s*(-?[0-9.]+),\s*y:\s*(-?[0-9.]+)\s*\}\)", hil), "FLIP_SHIFT")
    out.append(f"def FLIP_SHIFT : Int × Int := ({int(float(m.group(1)))}, {int(float(m.group(2)))})")

    def ori_set(fn_name, var):
        m = need(re.search(rf"pub\s+fn\s+{fn_name}\b.*?let\s+{var}\s*=\s*matches!\(\s*orientation\s*,(.*?)\);", hil, flags=re.S), f"{fn_name}.{var}")
        return sorted(parse_ori_list(m.group(1), f"{fn_name}.{var}"))

    for var, lname in [("reverse", "REVERSE_SET"), ("invert_j", "INVERT_J_SET"), ("flip_ij", "FLIP_IJ_SET")]:
        a = ori_set("s_to_anchor", var)
        b = ori_set("ij_to_s", var)
        out.append(f"def S2A_{lname} : List Nat := {a}")
        out.append(f"def IJ2S_{lname} : List Nat := {b}")

    # ---------------- constants.rs
    out.append("-- constants.rs")
    for name in ["PHI", "TWO_PI", "TWO_PI_OVER_5", "PI_OVER_5", "PI_OVER_10", "DIHEDRAL_ANGLE", "INTERHEDRAL_ANGLE", "FACE_EDGE_ANGLE", "DISTANCE_TO_EDGE", "DISTANCE_TO_VERTEX", "R_INSCRIBED", "R_MIDEDGE", "R_CIRCUMSCRIBED"]:
        m = need(re.search(rf"pub\s+const\s+{name}\s*:\s*\w+\s*=\s*(.*?);", con, flags=re.S), name)
        out.append(fconst(name, eval_const_expr(m.group(1))))
    out.append(fconst("PI", CONST_EXPR_ENV["PI"]))
    out.append(fconst("FRAC_PI_2", CONST_EXPR_ENV["std::f64::consts::FRAC_PI_2"]))
    out.append(fconst("PI_OVER_180", CONST_EXPR_ENV["PI"] / 180.0))
    out.append(fconst("DEG_PER_RAD", 180.0 / CONST_EXPR_ENV["PI"]))
    need(re.search(r"deg\.get\(\)\s*\*\s*\(std::f64::consts::PI\s*/\s*180\.0\)", ctr), "deg_to_rad formula")
    need(re.search(r"rad\.get\(\)\s*\*\s*\(180\.0\s*/\s*std::f64::consts::PI\)", ctr), "rad_to_deg formula")

    # ---------------- quaternions
    out.append("-- dodecahedron_quaternions.rs")
    m = need(re.search(r"pub\s+const\s+QUATERNIONS\s*:\s*\[Quat;\s*12\]\s*=\s*\[(.*?)\];", qua, flags=re.S), "QUATERNIONS")
    rows = re.findall(r"\[\s*([^\[\]]*?)\s*\]", m.group(1))
    if len(rows) != 12:
        raise TranslateError(f"QUATERNIONS rows: {len(rows)}")
    qrows = []
    for r in rows:
        vals = [parse_float_lit(x) for x in r.split(",") if x.strip()]
        if len(vals) != 4:
            raise TranslateError("quaternion arity")
        qrows.append("[" + ", ".join(fconst_anon(v) for v in vals) + "]")
    out.append("def QUATERNIONS : List (List FConst) := [\n  " + ",\n  ".join(qrows) + "]")

    # ---------------- coordinate_transforms.rs
    out.append("-- coordinate_transforms.rs")
    m = need(re.search(r"const\s+LONGITUDE_OFFSET\s*:\s*f64\s*=\s*([0-9.eE+-]+)\s*;", ctr), "LONGITUDE_OFFSET")
    out.append(fconst("LONGITUDE_OFFSET", parse_float_lit(m.group(1))))
    m = need(re.search(r"!\(\s*(-?[0-9.]+)\s*\.\.=\s*(-?[0-9.]+)\s*\)\.contains\(&center_lat\)", ctr), "pole latitude window")
    out.append(fconst("POLE_LAT_LO", parse_float_lit(m.group(1))))
    out.append(fconst("POLE_LAT_HI", parse_float_lit(m.group(2))))

    # ---------------- cell_info.rs
    out.append("-- cell_info.rs")
    m = need(re.search(r"const\s+AUTHALIC_AREA\s*:\s*f64\s*=\s*([0-9.eE+-]+)\s*;", cin), "AUTHALIC_AREA")
    out.append(fconst("AUTHALIC_AREA", parse_float_lit(m.group(1))))
    m = need(re.search(r"pub\s+fn\s+get_num_cells.*?\n\}", cin, flags=re.S), "get_num_cells")
    body = m.group(0)
    m0 = need(re.search(r"if\s+resolution\s*==\s*0\s*\{\s*return\s+(\d+);", body), "get_num_cells res 0")
    specials = re.findall(r"if\s+resolution\s*==\s*(\d+)\s*\{\s*return\s+(\d+);", body)
    out.append("def NUM_CELLS_SPECIAL : List (Int × Nat) := [" + ", ".join(f"({a}, {b})" for a, b in specials) + "]")
    need(re.search(r"4_u64\s*\.checked_pow\(\(resolution\s*-\s*1\)\s*as\s*u32\)\s*\.and_then\(\|cells_per_quintant\|\s*cells_per_quintant\.checked_mul\((\d+)\)\)\s*\.unwrap_or\(u64::MAX\)", body), "get_num_cells general formula (saturating 60*4^(r-1))")
    out.append("def NUM_CELLS_FACTOR : Nat := 60")
    m = need(re.search(r"pub\s+fn\s+cell_area.*?match\s+resolution\s*\{(.*?)_\s*=>", cin, flags=re.S), "cell_area table")
    arms = re.findall(r"(\d+)\s*=>\s*([0-9.eE+-]+)\s*,", m.group(1))
    if [int(a) for a, _ in arms] != list(range(len(arms))) or len(arms) < 30:
        raise TranslateError("cell_area arms must be 0..n")
    out.append("def CELL_AREA_TABLE : List FConst := [\n  " + ",\n  ".join(fconst_anon(parse_float_lit(v)) for _, v in arms) + "]")

    # ---------------- authalic.rs
    out.append("-- authalic.rs")
    for name in ["GEODETIC_TO_AUTHALIC", "AUTHALIC_TO_GEODETIC"]:
        m = need(re.search(rf"const\s+{name}\s*:\s*\[f64;\s*6\]\s*=\s*\[(.*?)\];", aut, flags=re.S), name)
        vals = [parse_float_lit(x) for x in m.group(1).split(",") if x.strip()]
        if len(vals) != 6:
            raise TranslateError(f"{name} arity")
        out.append(f"def {name} : List FConst := [" + ", ".join(fconst_anon(v) for v in vals) + "]")

    # ---------------- pentagon.rs
    out.append("-- pentagon.rs (seed vertices)")
    for vn in ["c", "d"]:
        m = need(re.search(rf"let\s+mut\s+{vn}\s*=\s*Face::new\(\s*([0-9.eE+-]+)\s*,\s*([0-9.eE+-]+)\s*\)", pen), f"pentagon seed {vn}")
        out.append(fconst(f"PENT_SEED_{vn.upper()}_X", parse_float_lit(m.group(1))))
        out.append(fconst(f"PENT_SEED_{vn.upper()}_Y", parse_float_lit(m.group(2))))
    need(re.search(r"let\s+mut\s+a\s*=\s*Face::new\(0\.0,\s*0\.0\)", pen), "pentagon seed a")
    need(re.search(r"let\s+mut\s+b\s*=\s*Face::new\(0\.0,\s*1\.0\)", pen), "pentagon seed b")

    # ---------------- cell.rs
    out.append("-- cell.rs")
    m = need(re.search(r"let\s+n\s*=\s*(\d+)\s*;\s*let\s+scale\s*=\s*([0-9.]+)\s*/\s*2\.0_f64\.powi\(hilbert_resolution\)", cel), "probe count / scale")
    out.append(f"def PROBE_COUNT : Nat := {m.group(1)}")
    out.append(fconst("PROBE_SCALE", parse_float_lit(m.group(2))))
    need(re.search(r"if\s+distance\s*>\s*0\.0\s*\{", cel), "hit test distance > 0.0")
    m = need(re.search(r"2_i32\.pow\(\((\d+)\s*-\s*cell_data\.resolution\)\.max\(0\)\s*as\s*u32\)", cel), "default boundary segments")
    out.append(f"def DEFAULT_SEGMENTS_BASE : Int := {m.group(1)}")

    # ---------------- numeric thresholds
    out.append("-- numeric thresholds")
    m = need(re.search(r"let\s+threshold\s*=\s*1\.0\s*-\s*([0-9.eE+-]+)\s*;", pol), "polyhedral snap threshold")
    out.append(fconst("POLY_SNAP_EPS", parse_float_lit(m.group(1))))
    m = need(re.search(r"fn\s+safe_acos.*?if\s+x\s*<\s*([0-9.eE+-]+)\s*\{", pol, flags=re.S), "safe_acos switch")
    out.append(fconst("SAFE_ACOS_SWITCH", parse_float_lit(m.group(1))))
    m = need(re.search(r"pub\s+fn\s+vector_difference.*?if\s+d\s*<\s*([0-9.eE+-]+)\s*\{", vec, flags=re.S), "vector_difference switch")
    out.append(fconst("VECDIFF_SWITCH", parse_float_lit(m.group(1))))
    m = need(re.search(r"pub\s+fn\s+slerp.*?if\s+gamma\s*<\s*([0-9.eE+-]+)\s*\{", vec, flags=re.S), "slerp switch")
    out.append(fconst("SLERP_SWITCH", parse_float_lit(m.group(1))))
    m = need(re.search(r"pub\s+fn\s+get_vertex.*?vec3_distance\(&point,\s*vertex\)\s*<\s*([0-9.eE+-]+)", crs, flags=re.S), "CRS get_vertex tolerance")
    out.append(fconst("CRS_TOL", parse_float_lit(m.group(1))))
    m = need(re.search(r"fn\s+add\(.*?vec3_distance\(&normalized,\s*existing_vertex\)\s*<\s*([0-9.eE+-]+)", crs, flags=re.S), "CRS add tolerance")
    out.append(fconst("CRS_ADD_TOL", parse_float_lit(m.group(1))))
    m = need(re.search(r"if\s+self\.invocations\s*==\s*(\d+)\s*\{", crs), "CRS invocation warning")
    out.append(f"def CRS_WARN_AT : Nat := {m.group(1)}")
    m = need(re.search(r"if\s+clamped\.abs\(\)\s*<\s*([0-9.eE+-]+)\s*\{", spp), "triangle area switch")
    out.append(fconst("TRI_AREA_SWITCH", parse_float_lit(m.group(1))))

    # ---------------- dodecahedron.rs memo layout
    out.append("-- dodecahedron.rs memo layout")
    m = need(re.search(r"face_triangles:\s*vec!\[None;\s*(\d+)\]", dod), "face_triangles size")
    out.append(f"def MEMO_FACE_SLOTS : Nat := {m.group(1)}")
    m = need(re.search(r"spherical_triangles:\s*vec!\[None;\s*(\d+)\]", dod), "spherical_triangles size")
    out.append(f"def MEMO_SPH_SLOTS : Nat := {m.group(1)}")
    m = need(re.search(r"index\s*\+=\s*if\s+squashed\s*\{\s*(\d+)\s*\}\s*else\s*\{\s*(\d+)\s*\}", dod), "face triangle slot offsets")
    out.append(f"def MEMO_FACE_SQUASHED_OFFSET : Nat := {m.group(1)}")
    out.append(f"def MEMO_FACE_REFLECTED_OFFSET : Nat := {m.group(2)}")
    m = need(re.search(r"let\s+mut\s+index\s*=\s*(\d+)\s*\*\s*\(origin_id\s+as\s+usize\)\s*\+\s*face_triangle_index", dod), "spherical triangle slot stride")
    out.append(f"def MEMO_SPH_STRIDE : Nat := {m.group(1)}")
    m = need(re.search(r"if\s+reflected\s*\{\s*index\s*\+=\s*(\d+);", dod), "spherical triangle reflected offset")
    out.append(f"def MEMO_SPH_REFLECTED_OFFSET : Nat := {m.group(1)}")
    m = need(re.search(r"if\s+face_triangle_index\s*>\s*(\d+)\s*\{", dod), "face triangle index bound")
    out.append(f"def FACE_TRIANGLE_MAX : Nat := {m.group(1)}")

    # tiling.rs
    need(re.search(r"const\s+TRIANGLE_MODE\s*:\s*bool\s*=\s*false\s*;", til), "TRIANGLE_MODE = false")

    # ---------------- state inventory (every file under src/)
    inv = state_inventory(repo)
    out.append("-- state inventory: every place where the crate can keep something between calls - `static` items (incl. those inside")
    out.append("-- `thread_local!` / `lazy_static!` and inside function bodies) and the field list of every struct - as `file kind name: type`.")
    out.append("-- The model is a pure function of each call's arguments plus the ONE memo it models (the projection's triangle caches);")
    out.append("-- a new item here is state the model does not have.  Entries are UTF-8 code lists (string literals do not reduce in the kernel).")
    for e in inv:
        out.append("--   " + e)
    out.append("def STATE_INVENTORY : List (List Nat) := [\n  " + ",\n  ".join("[" + ", ".join(str(b) for b in e.encode()) + "]" for e in inv) + "]")

    return out, hashes


def state_inventory(repo):
    """sorted list of `file kind name: type` for every static item and `file struct Name { fields }` for every struct of src/"""
    inv = []
    root = os.path.join(repo, "src")
    for d, _, fs in sorted(os.walk(root)):
        for f in sorted(fs):
            if not f.endswith(".rs"):
                continue
            rel = os.path.relpath(os.path.join(d, f), repo)
            txt = strip_comments(open(os.path.join(d, f), encoding="utf-8").read())
            norm = lambda t: re.sub(r"\s+", " ", t).strip()
            for m in re.finditer(r"\bstatic\s+(ref\s+|mut\s+)?([A-Za-z_][A-Za-z0-9_]*)\s*:\s*([^=;]+?)\s*(=|;)", txt):
                inv.append(f"{rel} static {norm((m.group(1) or '') + m.group(2))}: {norm(m.group(3))}")
            for m in re.finditer(r"\b(thread_local|lazy_static)\s*!", txt):
                inv.append(f"{rel} {m.group(1)}! block")
            for m in re.finditer(r"\bstruct\s+([A-Za-z_][A-Za-z0-9_]*)\s*(<[^>{]*>)?\s*(\{([^{}]*(\{[^{}]*\}[^{}]*)*)\}|\(([^;]*)\)\s*;|;)", txt):
                body = m.group(4) if m.group(4) is not None else (m.group(6) or "")
                fields = [norm(x) for x in re.split(r",(?![^<>()]*[>)])", body) if norm(x)]
                fields = [re.sub(r"^(pub(\([a-z]+\))?\s+)", "", x) for x in fields]
                inv.append(f"{rel} struct {m.group(1)} {{ " + "; ".join(fields) + " }")
    return sorted(inv)


def main():
    ap = argparse.ArgumentParser()
    ap.add_argument("--repo", default="/repo")
    ap.add_argument("--out", default=None)
    ap.add_argument("--namespace", default="A5.Gen")
    ap.add_argument("--import-fconst", default="A5.Model.FConst")
    args = ap.parse_args()
    try:
        body, hashes = translate(args.repo)
    except TranslateError as e:
        print(f"TRANSLATE-ERROR: {e}", file=sys.stderr)
        sys.exit(2)
    lines = []
    lines.append("/- GENERATED by /verif/tools/translate.py from /repo/src -- do not edit.")
    lines.append("   The file content depends only on the parsed items (no timestamps), so an unchanged")
    lines.append("   source tree regenerates a byte-identical file and nothing is re-elaborated. -/")
    lines.append(f"import {args.import_fconst}")
    lines.append("set_option maxRecDepth 4096")
    lines.append(f"namespace {args.namespace}")
    lines.append("open A5")
    lines.extend(body)
    lines.append(f"end {args.namespace}")
    text = "\n".join(lines) + "\n"
    if args.out:
        old = None
        try:
            old = open(args.out).read()
        except OSError:
            pass
        if old != text:
            os.makedirs(os.path.dirname(args.out), exist_ok=True)
            open(args.out, "w").write(text)
            print(f"translate: wrote {args.out} (changed)")
        else:
            print(f"translate: {args.out} unchanged")
        # side file with input hashes (not imported by Lean)
        with open(args.out + ".inputs", "w") as f:
            for rel, h in hashes:
                f.write(f"{h}  {rel}\n")
    else:
        sys.stdout.write(text)


if __name__ == "__main__":
    main()
