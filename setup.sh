#!/bin/sh
# Build everything the checks need, offline, from files on disk.
set -e
cd "$(dirname "$0")"
export CARGO_NET_OFFLINE=true
python3 tools/translate.py --repo /repo --out lean/A5/Gen/Tables.lean
(cd harness && cargo build --release --quiet && cargo build --quiet)
(cd lean && lake build a5driver)
python3 tools/gen_runtime.py --driver lean/.lake/build/bin/a5driver --harness harness/target/release/a5h --out lean/A5/Gen/Runtime.lean
(cd lean && lake build A5 a5driver A5.Props.StateInventory A5.Props.All $(ls A5/Props/C*.lean | sed 's/\.lean$//; s#/#.#g'))
echo setup done
