#!/bin/sh
# Build everything the checks need, offline, from files on disk.
set -e
cd "$(dirname "$0")"
export CARGO_NET_OFFLINE=true
python3 tools/translate.py --repo /repo --out lean/A5/Gen/Tables.lean
(cd lean && lake build A5 a5driver A5.Props.All $(ls A5/Props/C*.lean | sed 's/\.lean$//; s#/#.#g'))
(cd harness && cargo build --release --quiet && cargo build --quiet)
echo setup done
