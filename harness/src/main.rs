//! a5h: correspondence harness.  Reads one request per line on stdin, calls the real a5
//! library in-process and writes one response per line on stdout (same line protocol as the
//! Lean driver `a5driver`).
mod ops;

use std::io::{BufRead, BufWriter, Write};

fn main() {
    // silence the default panic message; panics are reported as `panic` responses
    std::panic::set_hook(Box::new(|_| {}));
    let args: Vec<String> = std::env::args().collect();
    if args.len() > 1 && args[1] == "threads" {
        ops::run_threads(&args[2..]);
        return;
    }
    if args.len() > 1 && args[1] == "mine" {
        ops::run_mine(&args[2..]);
        return;
    }
    if args.len() > 1 && args[1] == "teardown" {
        ops::run_teardown(&args[2..]);
        return;
    }
    if args.len() > 1 && args[1] == "hammer" {
        ops::run_hammer(&args[2..]);
        return;
    }
    let stdin = std::io::stdin();
    let stdout = std::io::stdout();
    let mut out = BufWriter::new(stdout.lock());
    let flush_each = args.iter().any(|a| a == "--flush");
    for line in stdin.lock().lines() {
        let line = match line {
            Ok(l) => l,
            Err(_) => break,
        };
        let resp = ops::handle_line_caught(&line);
        writeln!(out, "{}", resp).unwrap();
        if flush_each {
            out.flush().unwrap();
        }
    }
    out.flush().unwrap();
}
