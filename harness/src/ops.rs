use a5::core::serialization::{deserialize, get_stride, is_first_child, serialize};
use a5::core::cell_info::get_num_children;
use a5::A5Cell;
use std::panic::{catch_unwind, AssertUnwindSafe};

pub fn err_kind(msg: &str) -> &'static str {
    if msg.starts_with("Resolution (") && msg.ends_with("is too large") {
        "resTooLarge"
    } else if msg.starts_with("Resolution (") && msg.ends_with("cannot be negative") {
        "resNegative"
    } else if msg.starts_with("Resolution (") && msg.contains("outside the supported range") {
        "resOutOfRange"
    } else if msg.starts_with("S (") {
        "sTooLarge"
    } else if msg.starts_with("Could not parse origin") {
        "badOrigin"
    } else if msg.contains("must be equal to or greater than current resolution")
        || msg.starts_with("Cannot uncompact cell at resolution")
    {
        "targetCoarser"
    } else if msg.contains("exceeds maximum resolution") {
        "exceedsMax"
    } else if msg.starts_with("Resolution difference too large") {
        "diffTooLarge"
    } else if msg.starts_with("Target resolution (") && msg.ends_with("cannot be negative") {
        "negative"
    } else if msg.contains("must be equal to or less than current resolution") {
        "targetFiner"
    } else if msg.starts_with("Invalid hex string") {
        "hexParse"
    } else if msg.starts_with("Invalid origin ID") {
        "invalidOrigin"
    } else if msg.starts_with("Failed to find vertex in CRS") {
        "crsVertex"
    } else {
        "other"
    }
}

fn show<T>(r: Result<T, String>, f: impl Fn(T) -> String) -> String {
    match r {
        Ok(v) => format!("ok {}", f(v)),
        Err(e) => format!("err {}", err_kind(&e)),
    }
}

fn show_list(l: Vec<u64>) -> String {
    if l.is_empty() {
        "-".to_string()
    } else {
        l.iter().map(|x| x.to_string()).collect::<Vec<_>>().join(",")
    }
}

fn p_u64(s: &str) -> Option<u64> {
    s.parse::<u64>().ok()
}
fn p_i32(s: &str) -> Option<i32> {
    s.parse::<i32>().ok()
}
fn p_opt_i32(s: &str) -> Option<Option<i32>> {
    if s == "none" {
        Some(None)
    } else {
        p_i32(s).map(Some)
    }
}
fn p_list(s: &str) -> Option<Vec<u64>> {
    if s == "-" {
        return Some(vec![]);
    }
    s.split(',').map(|x| x.parse::<u64>().ok()).collect()
}
fn p_bytes(s: &str) -> Option<Vec<u8>> {
    if s == "-" {
        return Some(vec![]);
    }
    if s.len() % 2 != 0 {
        return None;
    }
    (0..s.len() / 2)
        .map(|i| u8::from_str_radix(&s[2 * i..2 * i + 2], 16).ok())
        .collect()
}
pub fn p_f64(s: &str) -> Option<f64> {
    let h = s.strip_prefix('x')?;
    u64::from_str_radix(h, 16).ok().map(f64::from_bits)
}
pub fn show_f64(x: f64) -> String {
    if x.is_nan() {
        "xnan".to_string()
    } else {
        format!("x{:016x}", x.to_bits())
    }
}

/// `digest <request>`: the response of `<request>`, with an `ok <id list>` payload replaced by
/// `ok n=<len> h=<order-sensitive hash> s=<sum mod 2^64> x=<xor>` (bulk requests whose full result is too long to ship)
fn digest(resp: &str) -> String {
    let body = match resp.strip_prefix("ok ") {
        Some(b) => b,
        None => return resp.to_string(),
    };
    let l = match p_list(body) {
        Some(l) => l,
        None => {
            // any other payload (a ring of points): number of `;`-separated items and the FNV-1a hash of the text
            let mut h = 0xcbf29ce484222325u64;
            for &b in body.as_bytes() {
                h = (h ^ b as u64).wrapping_mul(1099511628211);
            }
            // a ring of points `xLON,xLAT;...`: also the width of its longitude window
            let mut span = String::new();
            let mut it = body.split(';').filter_map(|pt| pt.split(',').next().and_then(p_f64));
            if body.starts_with('x') {
                if let Some(first) = it.next() {
                    let (mut mn, mut mx) = (first, first);
                    for x in it {
                        if x < mn {
                            mn = x;
                        }
                        if x > mx {
                            mx = x;
                        }
                    }
                    span = format!(" span={}", show_f64(mx - mn));
                }
            }
            return format!("ok n={} h={}{}", body.matches(';').count() + 1, h, span);
        }
    };
    // the sum is exact (u128): modulo 2^64 it would be blind to a shift of a whole block of 2^16 k ids by a multiple of 2^58
    let (mut h, mut sm, mut x) = (0xcbf29ce484222325u64, 0u128, 0u64);
    for &v in &l {
        h = (h ^ v).wrapping_mul(1099511628211);
        sm += v as u128;
        x ^= v;
    }
    format!("ok n={} h={} s={} x={}", l.len(), h, sm, x)
}

/// a freshly constructed projection object, through every public way of making one in turn: `new()`, the `Default` trait
fn fresh_projection() -> Option<a5::projections::dodecahedron::DodecahedronProjection> {
    use a5::projections::dodecahedron::DodecahedronProjection;
    use std::sync::atomic::{AtomicUsize, Ordering};
    static TURN: AtomicUsize = AtomicUsize::new(0);
    if TURN.fetch_add(1, Ordering::Relaxed) % 2 == 0 {
        DodecahedronProjection::new().ok()
    } else {
        Some(DodecahedronProjection::default())
    }
}

pub fn handle_line(line: &str) -> Option<String> {
    let toks: Vec<&str> = line.split_whitespace().collect();
    if toks.is_empty() {
        return None;
    }
    if toks[0] == "digest" {
        let rest = line.trim_start().strip_prefix("digest")?;
        return handle_line(rest).map(|r| digest(&r));
    }
    let op = toks[0];
    let a = &toks[1..];
    let r = match (op, a.len()) {
        ("get_resolution", 1) => format!("ok {}", a5::get_resolution(p_u64(a[0])?)),
        ("deserialize", 1) => show(deserialize(p_u64(a[0])?), |c| {
            format!("{} {} {} {}", c.origin_id, c.segment, c.s, c.resolution)
        }),
        ("serialize", 4) => {
            let o = p_u64(a[0])?;
            if o > 255 {
                return None;
            }
            let cell = A5Cell {
                origin_id: o as u8,
                segment: p_u64(a[1])? as usize,
                s: p_u64(a[2])?,
                resolution: p_i32(a[3])?,
            };
            show(serialize(&cell), |x| x.to_string())
        }
        ("cell_to_children", 2) => show(
            a5::cell_to_children(p_u64(a[0])?, p_opt_i32(a[1])?),
            show_list,
        ),
        ("cell_to_parent", 2) => show(
            a5::cell_to_parent(p_u64(a[0])?, p_opt_i32(a[1])?),
            |x| x.to_string(),
        ),
        ("get_res0_cells", 0) => show(a5::get_res0_cells(), show_list),
        ("is_first_child", 2) => format!(
            "ok {}",
            if is_first_child(p_u64(a[0])?, Some(p_i32(a[1])?)) { 1 } else { 0 }
        ),
        ("get_stride", 1) => format!("ok {}", get_stride(p_i32(a[0])?)),
        ("get_num_cells", 1) => format!("ok {}", a5::get_num_cells(p_i32(a[0])?)),
        ("get_num_children", 2) => {
            format!("ok {}", get_num_children(p_i32(a[0])?, p_i32(a[1])?))
        }
        ("compact", 1) => show(a5::compact(&p_list(a[0])?), show_list),
        ("uncompact", 2) => show(a5::uncompact(&p_list(a[0])?, p_i32(a[1])?), show_list),
        ("u64_to_hex", 1) => format!("ok {}", a5::u64_to_hex(p_u64(a[0])?)),
        ("hex_to_u64", 1) => {
            let b = p_bytes(a[0])?;
            match String::from_utf8(b) {
                Ok(s) => show(a5::hex_to_u64(&s), |x| x.to_string()),
                Err(_) => return None,
            }
        }
        _ => return crate::ops::float_ops(op, a),
    };
    Some(r)
}

fn show_pts(l: &[(f64, f64)]) -> String {
    if l.is_empty() {
        "-".to_string()
    } else {
        l.iter()
            .map(|(a, b)| format!("{},{}", show_f64(*a), show_f64(*b)))
            .collect::<Vec<_>>()
            .join(";")
    }
}

fn orientation(n: u64) -> Option<a5::core::hilbert::Orientation> {
    use a5::core::hilbert::Orientation::*;
    Some(match n {
        0 => UV,
        1 => VU,
        2 => UW,
        3 => WU,
        4 => VW,
        5 => WV,
        _ => return None,
    })
}

fn ori_code(o: a5::core::hilbert::Orientation) -> u64 {
    use a5::core::hilbert::Orientation::*;
    match o {
        UV => 0,
        VU => 1,
        UW => 2,
        WU => 3,
        VW => 4,
        WV => 5,
    }
}

pub fn float_ops(op: &str, a: &[&str]) -> Option<String> {
    use a5::coordinate_systems::{Face, LonLat, Radians, Spherical, IJ};
    use a5::core::cell::{a5cell_contains_point, CellToBoundaryOptions};
    use a5::projections::dodecahedron::DodecahedronProjection;
    let r = match (op, a.len()) {
        ("lonlat_to_cell", 3) => {
            let ll = LonLat::new(p_f64(a[0])?, p_f64(a[1])?);
            let res = p_i32(a[2])?;
            a5::core::cell::VERIF_LAST_BRANCH.with(|b| b.set(-3));
            let r = a5::lonlat_to_cell(ll, res);
            let br = a5::core::cell::VERIF_LAST_BRANCH.with(|b| b.get());
            show(r, |x| format!("{} {}", x, br))
        }
        ("cell_to_lonlat", 1) => show(a5::cell_to_lonlat(p_u64(a[0])?), |ll| {
            format!("{} {}", show_f64(ll.longitude()), show_f64(ll.latitude()))
        }),
        ("cell_to_boundary", 3) => {
            let id = p_u64(a[0])?;
            let closed = a[1] == "1";
            let segments = if a[2] == "none" { None } else { Some(p_i32(a[2])?) };
            show(
                a5::cell_to_boundary(id, Some(CellToBoundaryOptions { closed_ring: closed, segments })),
                |v| show_pts(&v.iter().map(|p| (p.longitude(), p.latitude())).collect::<Vec<_>>()),
            )
        }
        ("cell_to_boundary_default", 1) => show(a5::cell_to_boundary(p_u64(a[0])?, None), |v| {
            show_pts(&v.iter().map(|p| (p.longitude(), p.latitude())).collect::<Vec<_>>())
        }),
        ("contains", 3) => {
            let id = p_u64(a[0])?;
            let ll = LonLat::new(p_f64(a[1])?, p_f64(a[2])?);
            show(
                deserialize(id).and_then(|c| a5cell_contains_point(&c, ll)),
                show_f64,
            )
        }
        ("s_to_anchor", 3) => {
            let an = a5::core::hilbert::s_to_anchor(p_u64(a[0])?, p_u64(a[1])? as usize, orientation(p_u64(a[2])?)?);
            format!(
                "ok {} {} {} {} {}",
                an.k,
                an.offset.x() as i64,
                an.offset.y() as i64,
                an.flips[0],
                an.flips[1]
            )
        }
        ("ij_to_s", 4) => format!(
            "ok {}",
            a5::core::hilbert::ij_to_s(
                IJ::new(p_f64(a[0])?, p_f64(a[1])?),
                p_u64(a[2])? as usize,
                orientation(p_u64(a[3])?)?
            )
        ),
        ("pentagon_vertices", 7) => {
            let an = a5::core::hilbert::Anchor {
                k: p_u64(a[2])? as u8,
                offset: IJ::new(a[3].parse::<i64>().ok()? as f64, a[4].parse::<i64>().ok()? as f64),
                flips: [a[5].parse::<i8>().ok()?, a[6].parse::<i8>().ok()?],
            };
            let p = a5::core::tiling::get_pentagon_vertices(p_i32(a[0])?, p_u64(a[1])? as usize, &an);
            format!("ok {}", show_pts(&p.get_vertices_vec().iter().map(|v| (v.x(), v.y())).collect::<Vec<_>>()))
        }
        ("quintant_vertices", 1) => {
            let p = a5::core::tiling::get_quintant_vertices(p_u64(a[0])? as usize);
            format!("ok {}", show_pts(&p.get_vertices_vec().iter().map(|v| (v.x(), v.y())).collect::<Vec<_>>()))
        }
        ("face_vertices", 0) => {
            let p = a5::core::tiling::get_face_vertices();
            format!("ok {}", show_pts(&p.get_vertices_vec().iter().map(|v| (v.x(), v.y())).collect::<Vec<_>>()))
        }
        ("find_nearest_origin", 2) => {
            let sp = Spherical::new(Radians::new_unchecked(p_f64(a[0])?), Radians::new_unchecked(p_f64(a[1])?));
            format!("ok {}", a5::core::origin::find_nearest_origin(sp).id)
        }
        ("haversine", 4) => {
            let p = Spherical::new(Radians::new_unchecked(p_f64(a[0])?), Radians::new_unchecked(p_f64(a[1])?));
            let q = Spherical::new(Radians::new_unchecked(p_f64(a[2])?), Radians::new_unchecked(p_f64(a[3])?));
            format!("ok {}", show_f64(a5::core::origin::haversine(p, q)))
        }
        ("q2s", 2) => {
            let o = p_u64(a[1])? as usize;
            let origins = a5::core::origin::get_origins();
            if o >= origins.len() {
                return None;
            }
            let (s, ori) = a5::core::origin::quintant_to_segment(p_u64(a[0])? as usize, &origins[o]);
            format!("ok {} {}", s, ori_code(ori))
        }
        ("s2q", 2) => {
            let o = p_u64(a[1])? as usize;
            let origins = a5::core::origin::get_origins();
            if o >= origins.len() {
                return None;
            }
            let (q, ori) = a5::core::origin::segment_to_quintant(p_u64(a[0])? as usize, &origins[o]);
            format!("ok {} {}", q, ori_code(ori))
        }
        ("dodeca_forward", 3) => {
            let sp = Spherical::new(Radians::new_unchecked(p_f64(a[0])?), Radians::new_unchecked(p_f64(a[1])?));
            let o = p_u64(a[2])?;
            if o > 255 {
                return None;
            }
            let d = DodecahedronProjection::get_thread_local();
            show(d.forward(sp, o as u8), |f| format!("{} {}", show_f64(f.x()), show_f64(f.y())))
        }
        ("dodeca_inverse", 3) => {
            let f = Face::new(p_f64(a[0])?, p_f64(a[1])?);
            let o = p_u64(a[2])?;
            if o > 255 {
                return None;
            }
            let d = DodecahedronProjection::get_thread_local();
            show(d.inverse(f, o as u8), |s| {
                format!("{} {}", show_f64(s.theta().get()), show_f64(s.phi().get()))
            })
        }
        // the same two calls on a freshly constructed instance that is dropped afterwards (public constructor): the answer of
        // the projection must not depend on which instance computes it, nor on instances created and dropped earlier
        ("dodeca_forward_new", 3) => {
            let sp = Spherical::new(Radians::new_unchecked(p_f64(a[0])?), Radians::new_unchecked(p_f64(a[1])?));
            let o = p_u64(a[2])?;
            if o > 255 {
                return None;
            }
            let mut d = match fresh_projection() { Some(d) => d, None => return Some("err new".to_string()) };
            show(d.forward(sp, o as u8), |f| format!("{} {}", show_f64(f.x()), show_f64(f.y())))
        }
        ("dodeca_inverse_new", 3) => {
            let f = Face::new(p_f64(a[0])?, p_f64(a[1])?);
            let o = p_u64(a[2])?;
            if o > 255 {
                return None;
            }
            let mut d = match fresh_projection() { Some(d) => d, None => return Some("err new".to_string()) };
            show(d.inverse(f, o as u8), |s| {
                format!("{} {}", show_f64(s.theta().get()), show_f64(s.phi().get()))
            })
        }
        ("authalic_forward", 1) => format!(
            "ok {}",
            show_f64(a5::projections::authalic::AuthalicProjection.forward(Radians::new_unchecked(p_f64(a[0])?)).get())
        ),
        ("authalic_inverse", 1) => format!(
            "ok {}",
            show_f64(a5::projections::authalic::AuthalicProjection.inverse(Radians::new_unchecked(p_f64(a[0])?)).get())
        ),
        ("from_lonlat", 2) => {
            let s = a5::core::coordinate_transforms::from_lon_lat(LonLat::new(p_f64(a[0])?, p_f64(a[1])?));
            format!("ok {} {}", show_f64(s.theta().get()), show_f64(s.phi().get()))
        }
        ("to_lonlat", 2) => {
            let sp = Spherical::new(Radians::new_unchecked(p_f64(a[0])?), Radians::new_unchecked(p_f64(a[1])?));
            let l = a5::core::coordinate_transforms::to_lon_lat(sp);
            format!("ok {} {}", show_f64(l.longitude()), show_f64(l.latitude()))
        }
        ("cell_area", 1) => format!("ok {}", show_f64(a5::cell_area(p_i32(a[0])?))),
        ("quintant_polar", 1) => {
            let pol = a5::coordinate_systems::Polar::new(1.0, Radians::new_unchecked(p_f64(a[0])?));
            format!("ok {}", a5::core::tiling::get_quintant_polar(pol))
        }
        ("crs_vertex", 3) => {
            // the library's own snap of a point to its 62-vertex frame (public API)
            let mut crs = match a5::projections::crs::CRS::new() { Ok(c) => c, Err(_) => return Some("err new".to_string()) };
            let p = a5::coordinate_systems::Cartesian::new(p_f64(a[0])?, p_f64(a[1])?, p_f64(a[2])?);
            show(crs.get_vertex(p), |v| format!("{} {} {}", show_f64(v.x()), show_f64(v.y()), show_f64(v.z())))
        }
        ("consts", 0) => {
            use a5::core::pentagon as pg;
            let pts = [pg::a(), pg::b(), pg::c(), pg::d(), pg::e(), pg::u(), pg::v(), pg::w()];
            let b = pg::basis();
            let bi = pg::basis_inverse();
            let ms = [b.m00, b.m01, b.m10, b.m11, bi.m00, bi.m01, bi.m10, bi.m11];
            let os: Vec<String> = a5::core::origin::get_origins()
                .iter()
                .map(|o| {
                    format!(
                        "{}:{}:{}:{}:{}",
                        o.id,
                        show_f64(o.axis.theta().get()),
                        show_f64(o.axis.phi().get()),
                        show_f64(o.angle.get()),
                        o.first_quintant
                    )
                })
                .collect();
            format!(
                "ok {} | {} | {}",
                pts.iter().map(|p| format!("{} {}", show_f64(p.x()), show_f64(p.y()))).collect::<Vec<_>>().join(" "),
                ms.iter().map(|x| show_f64(*x)).collect::<Vec<_>>().join(" "),
                os.join(" ")
            )
        }
        ("memo_fill", 0) => {
            let (f, s, n) = DodecahedronProjection::verif_memo_fill();
            let fs: String = f.iter().map(|b| if *b { '1' } else { '0' }).collect();
            let ss: String = s.iter().map(|b| if *b { '1' } else { '0' }).collect();
            format!("ok {} {} {}", fs, ss, n)
        }
        _ => return None,
    };
    Some(r)
}

fn memo_bits() -> String {
    let (f, s, n) = a5::projections::dodecahedron::DodecahedronProjection::verif_memo_fill();
    let fs: String = f.iter().map(|b| if *b { '1' } else { '0' }).collect();
    let ss: String = s.iter().map(|b| if *b { '1' } else { '0' }).collect();
    format!("{} {} {}", fs, ss, n)
}

/// `hist c1;c2;...`: run the calls in order in a FRESH thread (fresh thread-local memo).
fn handle_hist(arg: &str) -> String {
    let calls: Vec<String> = arg.split(';').map(|c| c.replace(',', " ")).collect();
    let only_proj = calls
        .iter()
        .all(|c| c.starts_with("dodeca_forward ") || c.starts_with("dodeca_inverse "));
    let h = std::thread::spawn(move || {
        let rs: Vec<String> = calls.iter().map(|c| handle_plain_caught(c)).collect();
        let bits = if only_proj { memo_bits() } else { "-".to_string() };
        format!("{} | {}", rs.join(" ; "), bits)
    });
    h.join().unwrap_or_else(|_| "panic".to_string())
}

fn handle_plain_caught(line: &str) -> String {
    match catch_unwind(AssertUnwindSafe(|| handle_line(line))) {
        Ok(Some(r)) => r,
        Ok(None) => "bad-op".to_string(),
        Err(_) => "panic".to_string(),
    }
}

pub fn handle_line_caught(line: &str) -> String {
    let t = line.trim();
    if let Some(rest) = t.strip_prefix("hist ") {
        return handle_hist(rest.trim());
    }
    if t == "memo_sph_total" {
        return "ok 1".to_string(); // model-side evaluation check; the implementation side is the identity
    }
    handle_plain_caught(t)
}

/// `a5h hammer T R`: read a (small) set of request lines, answer each once on the main thread, then let T threads each run
/// the whole set R times, every thread in its own rotated order and all at once (one barrier at the start).  Prints, per
/// line, the main thread's answer, or `MISMATCH <first differing answer>` when some thread, at some repetition, got another
/// one: a result that depends on what other threads (or earlier calls) did.
pub fn run_hammer(args: &[String]) {
    use std::io::BufRead;
    use std::sync::{Arc, Barrier, Mutex};
    let t_n: usize = args.first().and_then(|a| a.parse().ok()).unwrap_or(8);
    let reps: usize = args.get(1).and_then(|a| a.parse().ok()).unwrap_or(100);
    let lines: Vec<String> = std::io::stdin().lock().lines().map_while(Result::ok).collect();
    let n = lines.len();
    let base: Vec<String> = lines.iter().map(|l| handle_plain_caught(l)).collect();
    let lines = Arc::new(lines);
    let base = Arc::new(base);
    let bad: Arc<Mutex<Vec<Option<String>>>> = Arc::new(Mutex::new(vec![None; n]));
    let barrier = Arc::new(Barrier::new(t_n));
    let mut handles = Vec::new();
    for t in 0..t_n {
        let (lines, base, bad, barrier) = (Arc::clone(&lines), Arc::clone(&base), Arc::clone(&bad), Arc::clone(&barrier));
        handles.push(std::thread::spawn(move || {
            barrier.wait();
            for r in 0..reps {
                for k in 0..n {
                    let i = (k * (2 * t + 1) + t * 7 + r) % n;
                    let resp = handle_plain_caught(&lines[i]);
                    if resp != base[i] {
                        let mut b = bad.lock().unwrap();
                        if b[i].is_none() {
                            b[i] = Some(resp);
                        }
                    }
                }
            }
        }));
    }
    for h in handles {
        let _ = h.join();
    }
    let bad = bad.lock().unwrap();
    let stdout = std::io::stdout();
    let mut o = std::io::BufWriter::new(stdout.lock());
    use std::io::Write;
    for i in 0..n {
        match &bad[i] {
            None => writeln!(o, "{}", base[i]).unwrap(),
            Some(r) => writeln!(o, "MISMATCH {}", r).unwrap(),
        }
    }
    o.flush().unwrap();
}

/// `a5h mine SEED COUNT RLO RHI MINBRANCH`: hard-case mining.  COUNT uniformly random points of the sphere (own splitmix64 generator) are
/// looked up at random resolutions RLO..=RHI; only the lookups that ended in the fallback or needed at least MINBRANCH distinct estimates
/// are printed, as request lines, for the model and the oracle to judge.  (7 microseconds per lookup: 10^7..10^9 points are affordable
/// here and nowhere else.)
pub fn run_mine(args: &[String]) {
    use a5::coordinate_systems::LonLat;
    let seed: u64 = args.first().and_then(|a| a.parse().ok()).unwrap_or(1);
    let count: u64 = args.get(1).and_then(|a| a.parse().ok()).unwrap_or(100000);
    let rlo: i32 = args.get(2).and_then(|a| a.parse().ok()).unwrap_or(2);
    let rhi: i32 = args.get(3).and_then(|a| a.parse().ok()).unwrap_or(29);
    let minb: i32 = args.get(4).and_then(|a| a.parse().ok()).unwrap_or(6);
    let mut st = seed.wrapping_mul(0x9E3779B97F4A7C15).wrapping_add(0x1234567);
    let mut next = move || {
        st = st.wrapping_add(0x9E3779B97F4A7C15);
        let mut z = st;
        z = (z ^ (z >> 30)).wrapping_mul(0xBF58476D1CE4E5B9);
        z = (z ^ (z >> 27)).wrapping_mul(0x94D049BB133111EB);
        z ^ (z >> 31)
    };
    let stdout = std::io::stdout();
    let mut o = std::io::BufWriter::new(stdout.lock());
    use std::io::Write;
    let mut hist = [0u64; 34];
    for _ in 0..count {
        let u = (next() >> 11) as f64 / (1u64 << 53) as f64;
        let v = (next() >> 11) as f64 / (1u64 << 53) as f64;
        let lon = -180.0 + 360.0 * u;
        let lat = (2.0 * v - 1.0).asin().to_degrees();
        let r = rlo + (next() % ((rhi - rlo + 1) as u64)) as i32;
        a5::core::cell::VERIF_LAST_BRANCH.with(|b| b.set(-3));
        let res = catch_unwind(AssertUnwindSafe(|| a5::lonlat_to_cell(LonLat::new(lon, lat), r)));
        let br = a5::core::cell::VERIF_LAST_BRANCH.with(|b| b.get());
        hist[(br + 3).clamp(0, 33) as usize] += 1;
        let hard = match res {
            Ok(Ok(_)) => br == -1 || br >= minb,
            _ => true,
        };
        if hard {
            // `F` = ended in the fallback (or failed), `H` = needed many estimates
            let tag = if br >= minb { "H" } else { "F" };
            writeln!(o, "{} lonlat_to_cell {} {} {}", tag, show_f64(lon), show_f64(lat), r).unwrap();
        }
    }
    let h: Vec<String> = hist.iter().enumerate().filter(|(_, &c)| c > 0).map(|(i, c)| format!("{}:{}", i as i32 - 3, c)).collect();
    writeln!(o, "# branches {}", h.join(" ")).unwrap();
    o.flush().unwrap();
}

/// `a5h teardown`: the library called while a thread is being torn down.  Each request is answered on the main thread, then by the
/// destructor of an application thread-local on a worker thread that is exiting - once for a thread-local first touched BEFORE the
/// thread's first library call (destroyed after the library's own thread-locals) and once for one touched after it.  A library that
/// frees per-thread state in a destructor but keeps handing it out panics (or worse) here; answers must equal the main thread's.
pub fn run_teardown(_args: &[String]) {
    use std::cell::RefCell;
    use std::io::BufRead;
    use std::sync::{Arc, Mutex};
    struct Guard {
        lines: Vec<String>,
        sink: Option<Arc<Mutex<Vec<Vec<String>>>>>,
    }
    impl Drop for Guard {
        fn drop(&mut self) {
            if let Some(sink) = &self.sink {
                let res: Vec<String> = self.lines.iter().map(|l| handle_plain_caught(l)).collect();
                sink.lock().unwrap().push(res);
            }
        }
    }
    thread_local! {
        static GUARD: RefCell<Guard> = RefCell::new(Guard { lines: Vec::new(), sink: None });
    }
    let lines: Vec<String> = std::io::stdin().lock().lines().map_while(Result::ok).collect();
    let n = lines.len();
    let base: Vec<String> = lines.iter().map(|l| handle_plain_caught(l)).collect();
    let sink: Arc<Mutex<Vec<Vec<String>>>> = Arc::new(Mutex::new(Vec::new()));
    for early in [true, false, true] {
        let (l2, s2) = (lines.clone(), Arc::clone(&sink));
        let h = std::thread::spawn(move || {
            let arm = |l2: Vec<String>, s2: Arc<Mutex<Vec<Vec<String>>>>| {
                GUARD.with(|g| {
                    let mut g = g.borrow_mut();
                    g.lines = l2;
                    g.sink = Some(s2);
                })
            };
            if early {
                arm(l2.clone(), Arc::clone(&s2));
            }
            for l in l2.iter() {
                let _ = handle_plain_caught(l);
            }
            if !early {
                arm(l2.clone(), Arc::clone(&s2));
            }
        });
        let _ = h.join();
    }
    let got = sink.lock().unwrap();
    let stdout = std::io::stdout();
    let mut o = std::io::BufWriter::new(stdout.lock());
    use std::io::Write;
    for i in 0..n {
        let mut bad: Option<String> = None;
        if got.len() < 3 {
            bad = Some(format!("only {} of 3 thread destructors completed", got.len()));
        }
        for g in got.iter() {
            if g[i] != base[i] {
                bad = Some(g[i].clone());
            }
        }
        match bad {
            None => writeln!(o, "{}", base[i]).unwrap(),
            Some(r) => writeln!(o, "MISMATCH {}", r).unwrap(),
        }
    }
    o.flush().unwrap();
}

/// `a5h threads N [B]`: read all request lines, give line i to thread i % N, every thread runs its
/// lines in order with a barrier every B lines (so the threads really overlap); responses are
/// printed in the original order.
pub fn run_threads(args: &[String]) {
    use std::io::BufRead;
    use std::sync::{Arc, Barrier};
    let n: usize = args.first().and_then(|a| a.parse().ok()).unwrap_or(8);
    let b: usize = args.get(1).and_then(|a| a.parse().ok()).unwrap_or(5);
    let lines: Vec<String> = std::io::stdin().lock().lines().map_while(Result::ok).collect();
    let total = lines.len();
    let lines = Arc::new(lines);
    let rounds = (total + n - 1) / n;
    let barrier = Arc::new(Barrier::new(n));
    let mut handles = Vec::new();
    for t in 0..n {
        let lines = Arc::clone(&lines);
        let barrier = Arc::clone(&barrier);
        handles.push(std::thread::spawn(move || {
            let mut out: Vec<(usize, String)> = Vec::new();
            for r in 0..rounds {
                if r % b == 0 {
                    barrier.wait();
                }
                let i = r * n + t;
                if i < lines.len() {
                    out.push((i, handle_plain_caught(&lines[i])));
                }
            }
            out
        }));
    }
    let mut res: Vec<String> = vec!["lost".to_string(); total];
    for h in handles {
        if let Ok(v) = h.join() {
            for (i, r) in v {
                res[i] = r;
            }
        }
    }
    let stdout = std::io::stdout();
    let mut o = std::io::BufWriter::new(stdout.lock());
    use std::io::Write;
    for r in res {
        writeln!(o, "{}", r).unwrap();
    }
    o.flush().unwrap();
}
