use a5::core::serialization::{deserialize, get_stride, is_first_child, serialize};
use a5::core::cell_info::get_num_children;
use a5::A5Cell;
use std::panic::{catch_unwind, AssertUnwindSafe};

pub fn err_kind(msg: &str) -> &'static str {
    if msg.starts_with("Resolution (") && msg.ends_with("is too large") {
        "resTooLarge"
    } else if msg.starts_with("Resolution (") && msg.ends_with("cannot be negative") {
        "resNegative"
    } else if msg.starts_with("Resolution (") && msg.contains("outside the supported range") {
        "resOutOfRange"
    } else if msg.starts_with("S (") {
        "sTooLarge"
    } else if msg.starts_with("Could not parse origin") {
        "badOrigin"
    } else if msg.contains("must be equal to or greater than current resolution")
        || msg.starts_with("Cannot uncompact cell at resolution")
    {
        "targetCoarser"
    } else if msg.contains("exceeds maximum resolution") {
        "exceedsMax"
    } else if msg.starts_with("Resolution difference too large") {
        "diffTooLarge"
    } else if msg.starts_with("Target resolution (") && msg.ends_with("cannot be negative") {
        "negative"
    } else if msg.contains("must be equal to or less than current resolution") {
        "targetFiner"
    } else if msg.starts_with("Invalid hex string") {
        "hexParse"
    } else if msg.starts_with("Invalid origin ID") {
        "invalidOrigin"
    } else if msg.starts_with("Failed to find vertex in CRS") {
        "crsVertex"
    } else {
        "other"
    }
}

fn show<T>(r: Result<T, String>, f: impl Fn(T) -> String) -> String {
    match r {
        Ok(v) => format!("ok {}", f(v)),
        Err(e) => format!("err {}", err_kind(&e)),
    }
}

fn show_list(l: Vec<u64>) -> String {
    if l.is_empty() {
        "-".to_string()
    } else {
        l.iter().map(|x| x.to_string()).collect::<Vec<_>>().join(",")
    }
}

fn p_u64(s: &str) -> Option<u64> {
    s.parse::<u64>().ok()
}
fn p_i32(s: &str) -> Option<i32> {
    s.parse::<i32>().ok()
}
fn p_opt_i32(s: &str) -> Option<Option<i32>> {
    if s == "none" {
        Some(None)
    } else {
        p_i32(s).map(Some)
    }
}
fn p_list(s: &str) -> Option<Vec<u64>> {
    if s == "-" {
        return Some(vec![]);
    }
    s.split(',').map(|x| x.parse::<u64>().ok()).collect()
}
fn p_bytes(s: &str) -> Option<Vec<u8>> {
    if s == "-" {
        return Some(vec![]);
    }
    if s.len() % 2 != 0 {
        return None;
    }
    (0..s.len() / 2)
        .map(|i| u8::from_str_radix(&s[2 * i..2 * i + 2], 16).ok())
        .collect()
}
pub fn p_f64(s: &str) -> Option<f64> {
    let h = s.strip_prefix('x')?;
    u64::from_str_radix(h, 16).ok().map(f64::from_bits)
}
pub fn show_f64(x: f64) -> String {
    if x.is_nan() {
        "xnan".to_string()
    } else {
        format!("x{:016x}", x.to_bits())
    }
}

pub fn handle_line(line: &str) -> Option<String> {
    let toks: Vec<&str> = line.split_whitespace().collect();
    if toks.is_empty() {
        return None;
    }
    let op = toks[0];
    let a = &toks[1..];
    let r = match (op, a.len()) {
        ("get_resolution", 1) => format!("ok {}", a5::get_resolution(p_u64(a[0])?)),
        ("deserialize", 1) => show(deserialize(p_u64(a[0])?), |c| {
            format!("{} {} {} {}", c.origin_id, c.segment, c.s, c.resolution)
        }),
        ("serialize", 4) => {
            let o = p_u64(a[0])?;
            if o > 255 {
                return None;
            }
            let cell = A5Cell {
                origin_id: o as u8,
                segment: p_u64(a[1])? as usize,
                s: p_u64(a[2])?,
                resolution: p_i32(a[3])?,
            };
            show(serialize(&cell), |x| x.to_string())
        }
        ("cell_to_children", 2) => show(
            a5::cell_to_children(p_u64(a[0])?, p_opt_i32(a[1])?),
            show_list,
        ),
        ("cell_to_parent", 2) => show(
            a5::cell_to_parent(p_u64(a[0])?, p_opt_i32(a[1])?),
            |x| x.to_string(),
        ),
        ("get_res0_cells", 0) => show(a5::get_res0_cells(), show_list),
        ("is_first_child", 2) => format!(
            "ok {}",
            if is_first_child(p_u64(a[0])?, Some(p_i32(a[1])?)) { 1 } else { 0 }
        ),
        ("get_stride", 1) => format!("ok {}", get_stride(p_i32(a[0])?)),
        ("get_num_cells", 1) => format!("ok {}", a5::get_num_cells(p_i32(a[0])?)),
        ("get_num_children", 2) => {
            format!("ok {}", get_num_children(p_i32(a[0])?, p_i32(a[1])?))
        }
        ("compact", 1) => show(a5::compact(&p_list(a[0])?), show_list),
        ("uncompact", 2) => show(a5::uncompact(&p_list(a[0])?, p_i32(a[1])?), show_list),
        ("u64_to_hex", 1) => format!("ok {}", a5::u64_to_hex(p_u64(a[0])?)),
        ("hex_to_u64", 1) => {
            let b = p_bytes(a[0])?;
            match String::from_utf8(b) {
                Ok(s) => show(a5::hex_to_u64(&s), |x| x.to_string()),
                Err(_) => return None,
            }
        }
        _ => return crate::ops::float_ops(op, a),
    };
    Some(r)
}

pub fn float_ops(_op: &str, _a: &[&str]) -> Option<String> {
    None
}

pub fn handle_line_caught(line: &str) -> String {
    match catch_unwind(AssertUnwindSafe(|| handle_line(line))) {
        Ok(Some(r)) => r,
        Ok(None) => "bad-op".to_string(),
        Err(_) => "panic".to_string(),
    }
}

pub fn run_threads(_args: &[String]) {
    eprintln!("threads mode not built yet");
    std::process::exit(2);
}
